import Asts.Proofs.SY_c_Prefix
import Asts.Proofs.SY_c_Retry
import Asts.Proofs.SY_c_Bridge
import Asts.Proofs.SY_c_World
import Asts.Proofs.L1_a_Final

/-! # C09 — a failure or crash at any API call is reported, harmless, and recoverable

Property theorems only; the lemmas live in `Asts/Proofs/SY_c_*.lean`. `syncF h i plan` is the model (`Model/Sync`) of one
`StatefulSetController.sync` + `UpdateStatefulSet` under the fault plan `plan` (any number of faults; a fault names a call
key and an occurrence number); `C09reported` is the monitor of `Spec/Sync.lean`. Everything holds for every hashing
(colliding ones included), every store, every pod list, every plan; no size bounds.

Vocabulary (`Proofs/SY_c_Base`, `SY_c_Events`):
* `planAt plan k occ` — the fault the plan assigns to the `occ`-th call with key `k`; `cnt log k` — occurrences of `k`;
* `events plan log` — the log read back with the fault that fired at each entry (what `Tr.call` returned when the entry was
  appended, and what `annotate` of the spec recomputes: `annotate_events`);
* `Benign cx prev ev` — the failure at event `ev` (if any) is one the code swallows ON PURPOSE: Conflict on `updatestatus`,
  on `update:rev:*` (renumbering) or on `update:pod:*` (absorbed by a retry loop), NotFound on `patch:pod:*`, Invalid on the
  release patch of a pod the set controls, AlreadyExists on `create:rev:*`, anything on the `get:rev:n` that directly
  follows a failed `update:rev:n`; `cx.exempt` are keys left out of the judgement, `cx.nameOk` certifies object names;
* `BenignFrom cx plan n log` — every fault that fired at a position `≥ n` of `log` is benign.
  "A non-benign fault firing in this phase makes the phase fail" is, contrapositively,
  `phase succeeded → BenignFrom cx plan (length of the log before the phase) (log after the phase)`.

Hypotheses of the headline, and why:
* `NamesOk h i` — object names (pods, stored revisions, every name the hashing can produce) contain no `':'`, and the pods
  of the snapshot have pairwise different names. The monitor parses the call keys back with `splitOn ":"` and identifies a
  pod by its name; with a `':'` in a name `C09reported` is really false on a benign NotFound (the key no longer parses).
* `PodCtlFree plan` — the plan injects nothing into pod-control calls (`create:pod:*`, `delete:pod:*`, `update:pod:*`).
  Those calls are not made through the trace: the model hands `updateStatefulSet` the reconcile-level `Faults` computed by
  `podFaults`, which translates only plan entries with occurrence 0 whose ordinal it can recover (a pod of that name in the
  snapshot, or an ordinal below 64). Outside that the MODEL (not necessarily the code) swallows the fault — two evaluated
  counterexamples to the unrestricted statement are recorded at the end of this file. For these calls the theorem is
  `reconcile_hit_err` / `reconcile_err_iff_last_hit`, on `Faults`: a pod-control call that fails ends the reconcile `.err`.

Recovery ("once calls stop failing the system reaches the same final state") is C02's convergence from the state left
behind and is not attempted here: `World.round` applies the fault plan in round 1 only and the `world` engine monitors
`C09.recovers`. -/
namespace Asts.C09
open Asts.SYc

/-! ## (i) reported -/

/-- **C09 reported — the monitor is true on the model** for every hashing, world and plan without pod-control faults. -/
theorem C09_reported (h : Hashing) (i : SyncIn) (plan : List Fault) (hn : NamesOk h i) (hfree : PodCtlFree plan) :
    C09reported i plan (syncF h i plan).observe = true :=
  C09reported_holds h i plan hn hfree

/-- `Prop` reading of the headline: in a sync that does not report failure (success — or a panic, C15's subject), the fault
    (if any) that fired at any position of the call log is on the benign list. `pre.getLast?` is the event just before. -/
theorem reported_prop (h : Hashing) (i : SyncIn) (plan : List Fault) (hn : NamesOk h i) (hfree : PodCtlFree plan)
    (hok : (syncF h i plan).outcome ≠ .err) {pre post : List Ev} {x : Ev}
    (hx : events plan (syncF h i plan).log = pre ++ x :: post) : Benign (cx0 i) pre.getLast? x :=
  syncF_benign (cx0 i) plan h i rfl hn.pods hn.hash hn.store
    (fun _ hk => Or.inr (fun f hf e => hfree f hf (e ▸ hk))) hok pre x post hx (Nat.zero_le _)

/-- the same, contrapositively — **a fault that fired and is not benign makes the sync end `.err`** (so that the key is
    re-queued): `x` is the event at some position of the log, `x.2 = some kind` the fault that fired there. -/
theorem nonbenign_fault_is_reported (h : Hashing) (i : SyncIn) (plan : List Fault) (hn : NamesOk h i)
    (hfree : PodCtlFree plan) {pre post : List Ev} {x : Ev}
    (hx : events plan (syncF h i plan).log = pre ++ x :: post) (hbad : ¬ Benign (cx0 i) pre.getLast? x) :
    (syncF h i plan).outcome = .err := by
  by_contra hne
  exact hbad (reported_prop h i plan hn hfree hne hx)

/-- a fault fires exactly where a plan entry matches key and occurrence number; and the event at a position of the log is
    the entry there with the plan's verdict for its occurrence number among the entries before -/
theorem fired_iff_plan_entry (plan : List Fault) (k : String) (occ : Nat) :
    (planAt plan k occ).isSome = true ↔ ∃ f ∈ plan, f.key = k ∧ f.occ = occ :=
  planAt_isSome_iff plan k occ

theorem event_at_position (plan : List Fault) (a : List String) (k : String) (b : List String) :
    events plan (a ++ k :: b) = events plan a ++ (k, planAt plan k (cnt a k)) :: eventsFrom plan (a ++ [k]) b :=
  events_at plan a k b

/-- **C09 reported, in the words of the property**: if the log of the sync is `a ++ k :: b`, some plan entry matches the
    call `k` at that position (same key, occurrence number = number of earlier calls with that key) — i.e. the fault
    fired — and the failure is not one of the benign ones, then the sync ends `.err`. -/
theorem fired_nonbenign_fault_err (h : Hashing) (i : SyncIn) (plan : List Fault) (hn : NamesOk h i)
    (hfree : PodCtlFree plan) {a b : List String} {k : String} (hlog : (syncF h i plan).log = a ++ k :: b)
    (hbad : ¬ Benign (cx0 i) (events plan a).getLast? (k, planAt plan k (cnt a k))) :
    (syncF h i plan).outcome = .err := by
  refine nonbenign_fault_is_reported h i plan hn hfree (pre := events plan a)
    (post := eventsFrom plan (a ++ [k]) b) ?_ hbad
  rw [hlog, events_at]

/-- **every plan, no hypothesis at all**: in a sync that returns success, every fault that fired at a call other than a
    pod-control call is benign (the pod-control keys are exempt; `reconcile_hit_err` is the statement about them). -/
theorem reported_any_plan (h : Hashing) (i : SyncIn) (plan : List Fault) (hok : (syncF h i plan).outcome ≠ .err) :
    BenignFrom ⟨i.pods, IsPodCtlKey, fun _ => True⟩ plan 0 (syncF h i plan).log :=
  syncF_benign ⟨i.pods, IsPodCtlKey, fun _ => True⟩ plan h i rfl (fun _ _ => trivial) (fun _ _ => trivial)
    (fun _ _ => trivial) (fun _ hk => Or.inl hk) hok

/-- the monitor recomputes exactly the faults the model saw: `annotate` = `events` with the keys parsed -/
theorem annotate_is_events (plan : List Fault) (log : List String) :
    (annotate plan log).map (fun x => (x.1, x.2.2)) = (events plan log).map (fun ev => (parseEntry ev.1, ev.2)) :=
  annotate_events plan log

/-- every call of the model is logged with the fault the plan assigns to it at that moment -/
theorem call_is_logged (t : Tr) (plan : List Fault) (k : String) :
    (t.call plan k).1.log = t.log ++ [k] ∧ (t.call plan k).2 = planAt plan k (cnt t.log k) ∧
    events plan (t.call plan k).1.log = events plan t.log ++ [(k, (t.call plan k).2)] :=
  ⟨rfl, rfl, events_snoc plan t.log k⟩

/-! ### phase by phase: a non-benign fault firing in a phase makes that phase fail

Each statement: the phase's log extends the log before it, and if the phase reports success then every fault that fired
*in this phase* (positions `≥` the length of the log before) is benign — for the phases with no intended swallowing that
means no fault fired at all. -/

/-- `ListRevisions` (two List calls): any failure fails it -/
theorem phase_listRevs (cx : Cx) (plan : List Fault) (s : RevSt) (hok : (listRevsF plan s).2 ≠ none) :
    s.tr.log <+: (listRevsF plan s).1.tr.log ∧
    BenignFrom cx plan s.tr.log.length (listRevsF plan s).1.tr.log :=
  ⟨(listRevsF_spec cx plan 0 s).2.1, (listRevsF_spec cx plan s.tr.log.length s).2.2.2 (benignFrom_len cx plan _) hok⟩

/-- `adoptOrphanRevisions`: listing, label-sync Updates, the uncached Get of the set, adoption Patches — any failure fails it -/
theorem phase_adoptRevisions (cx : Cx) (plan : List Fault) (del : Bool) (fresh : Fresh) (s : RevSt)
    (hok : (adoptOrphanRevisionsF plan del fresh s).2 = .ok) :
    s.tr.log <+: (adoptOrphanRevisionsF plan del fresh s).1.tr.log ∧
    BenignFrom cx plan s.tr.log.length (adoptOrphanRevisionsF plan del fresh s).1.tr.log :=
  ⟨adopt_prefix plan del fresh s, adopt_benign cx plan _ del fresh s (benignFrom_len cx plan _) hok⟩

/-- `ClaimPods`: only NotFound on a patch and Invalid on a release patch are swallowed; a failed uncached Get of the set, or
    any other patch failure, marks the claim as failed (and the sync then returns an error) -/
theorem phase_claimPods (cx : Cx) (plan : List Fault) (del : Bool) (fresh : Fresh) (tr : Tr)
    (hnm : ∀ c ∈ cx.pods, cx.nameOk c.name) (hok : (claimPodsF plan del fresh cx.pods tr).failed = false) :
    tr.log <+: (claimPodsF plan del fresh cx.pods tr).tr.log ∧
    BenignFrom cx plan tr.log.length (claimPodsF plan del fresh cx.pods tr).tr.log :=
  ⟨claim_prefix plan del fresh cx.pods tr, claim_benign cx plan _ del fresh tr hnm (benignFrom_len cx plan _) hok⟩

/-- `updateControllerRevision` (renumbering): only Conflicts, each with its refreshing Get, are absorbed -/
theorem phase_renumber (cx : Cx) (plan : List Fault) (name : String) (m : Int) (hnm : cx.nameOk name) (fuel : Nat)
    (s : RevSt) (hok : (renumberF plan name m fuel s).2 = true) :
    s.tr.log <+: (renumberF plan name m fuel s).1.tr.log ∧
    BenignFrom cx plan s.tr.log.length (renumberF plan name m fuel s).1.tr.log :=
  ⟨renumberF_prefix plan name m fuel s, renumberF_benign cx plan _ name m hnm fuel s (benignFrom_len cx plan _) hok⟩

/-- `createControllerRevision`: only AlreadyExists on the Create is absorbed (the following Get must succeed) -/
theorem phase_createRevision (cx : Cx) (plan : List Fault) (h : Hashing) (fresh : Rev)
    (hh : ∀ d c, cx.nameOk (h.nameOf d c)) (fuel : Nat) (cc : Int) (s : RevSt)
    (hok : (createRevLoopF h plan fresh fuel cc s).2 ≠ none) :
    s.tr.log <+: (createRevLoopF h plan fresh fuel cc s).1.tr.log ∧
    BenignFrom cx plan s.tr.log.length (createRevLoopF h plan fresh fuel cc s).1.tr.log :=
  ⟨createRevLoopF_prefix plan h fresh fuel cc s,
   createRevLoopF_benign cx plan _ h fresh hh fuel cc s (benignFrom_len cx plan _) hok⟩

/-- `getStatefulSetRevisions` as a whole -/
theorem phase_getRevisions (cx : Cx) (plan : List Fault) (h : Hashing) (template scr : String) (cc0 : Int)
    (revs : List Rev) (s : RevSt) (hh : ∀ d c, cx.nameOk (h.nameOf d c)) (hrevs : ∀ r ∈ revs, cx.nameOk r.name)
    (hok : (getRevisionsF h plan template scr cc0 revs s).2 ≠ none) :
    s.tr.log <+: (getRevisionsF h plan template scr cc0 revs s).1.tr.log ∧
    BenignFrom cx plan s.tr.log.length (getRevisionsF h plan template scr cc0 revs s).1.tr.log :=
  ⟨getRevisionsF_prefix plan h template scr cc0 revs s,
   getRevisionsF_benign cx plan _ h template scr cc0 revs s hh hrevs (benignFrom_len cx plan _) hok⟩

/-- the reconcile: a pod-control call (create / delete / update of a pod) that is among the failing ones ends it `.err` -/
theorem reconcile_hit_err (v : SetView) (cur upd : String) (pods : List Pod) (f : Faults) (a : Action)
    (ha : a ∈ (updateStatefulSet v cur upd pods f).1.acts) (hh : hitAct f a = true) :
    (updateStatefulSet v cur upd pods f).2 = .err :=
  updateStatefulSet_hit_err v cur upd pods f a ha hh

/-- and exactly so: `.ok` ⇒ no performed call failed; `.err` ⇒ the last performed call failed and no earlier one did (this is
    why `actsDone = acts.length - 1` on error); a panic performs nothing -/
theorem reconcile_err_iff_last_hit (v : SetView) (cur upd : String) (pods : List Pod) (f : Faults) :
    match (updateStatefulSet v cur upd pods f).2 with
    | .ok => Clean f (updateStatefulSet v cur upd pods f).1.acts
    | .err => ∃ l a, (updateStatefulSet v cur upd pods f).1.acts = l ++ [a] ∧ Clean f l ∧ hitAct f a = true
    | .panic _ => (updateStatefulSet v cur upd pods f).1.acts = [] :=
  updateStatefulSet_hits v cur upd pods f

/-- the status write: only Conflicts are absorbed -/
theorem phase_statusWrite (cx : Cx) (plan : List Fault) (gone : Bool) (fuel : Nat) (t : Tr)
    (hok : (statusWriteF plan gone fuel t).2 = true) :
    t.log <+: (statusWriteF plan gone fuel t).1.log ∧
    BenignFrom cx plan t.log.length (statusWriteF plan gone fuel t).1.log :=
  ⟨statusWriteF_prefix plan gone fuel t, statusWriteF_benign cx plan _ gone fuel t (benignFrom_len cx plan _) hok⟩

/-- `truncateHistory`: any failed Delete fails it -/
theorem phase_truncate (cx : Cx) (plan : List Fault) (limit : Option Int) (podRevs : List String) (revs : List Rev)
    (cur upd : Rev) (s : RevSt) (hok : (truncateF plan limit podRevs revs cur upd s).2 ≠ .err) :
    s.tr.log <+: (truncateF plan limit podRevs revs cur upd s).1.tr.log ∧
    BenignFrom cx plan s.tr.log.length (truncateF plan limit podRevs revs cur upd s).1.tr.log :=
  ⟨truncateF_prefix plan limit podRevs revs cur upd s,
   truncateF_benign cx plan _ limit podRevs revs cur upd s (benignFrom_len cx plan _) hok⟩

/-! ## (ii) retry bounds -/

/-- the renumbering Update is attempted at most 4 times (each failed attempt followed by one refreshing Get, nothing else) -/
theorem renumber_at_most_4 (plan : List Fault) (name : String) (n : Int) (s : RevSt) :
    ∃ ext, (renumberF plan name n 4 s).1.tr.log = s.tr.log ++ ext ∧
      cnt ext (kUpdateRev name) ≤ 4 ∧ ext.length ≤ 8 ∧ ∀ e ∈ ext, e = kUpdateRev name ∨ e = kGetRev name :=
  renumberF_at_most_4 plan name n s

/-- it succeeds iff one of the first 4 attempts is unfaulted and all earlier ones answered Conflict; attempt `j` is the
    `(c₀ + j)`-th call with key `update:rev:<name>`, `c₀` = number of such calls logged before -/
theorem renumber_ok_iff (plan : List Fault) (name : String) (n : Int) (s : RevSt) :
    (renumberF plan name n 4 s).2 = true ↔
      RetryOk (fun j => planAt plan (kUpdateRev name) (cnt s.tr.log (kUpdateRev name) + j)) 4 :=
  renumberF_ok_iff plan name n 4 s

/-- the status Update is attempted at most 5 times and nothing else is called -/
theorem statusWrite_at_most_5 (plan : List Fault) (gone : Bool) (t : Tr) :
    ∃ m, m ≤ 5 ∧ (statusWriteF plan gone 5 t).1.log = t.log ++ List.replicate m "updatestatus" :=
  statusWriteF_at_most_5 plan gone t

/-- it succeeds iff the object still exists and one of the first 5 attempts is unfaulted with all earlier ones Conflict -/
theorem statusWrite_ok_iff (plan : List Fault) (gone : Bool) (t : Tr) :
    (statusWriteF plan gone 5 t).2 = true ↔
      gone = false ∧ RetryOk (fun j => planAt plan "updatestatus" (cnt t.log "updatestatus" + j)) 5 :=
  statusWriteF_ok_iff plan gone 5 t

/-- a pod Update is attempted at most 4 times; it succeeds iff a Conflict-only prefix ends in an unfaulted attempt; every
    attempt but the last answered Conflict -/
theorem updateAttempts_bounds (plan : List Fault) (key : String) :
    (updateAttempts plan key 4 0).1 ≤ 4 ∧
    ((updateAttempts plan key 4 0).2 = true ↔ RetryOk (fun j => planAt plan key j) 4) ∧
    (∀ j, j + 1 < (updateAttempts plan key 4 0).1 → planAt plan key j = some ErrKind.conflict) := by
  have h := updateAttempts_spec plan key 4 0
  refine ⟨by omega, ?_, fun j hj => h.2.2.2.1 j (Nat.zero_le _) hj⟩
  have := h.2.2.1
  simpa using this

/-! ## (iii) a crash is a prefix, and prefixes are safe

A process that dies at call `k` has issued exactly the first `k` calls. The list-level safety monitors are prefix-closed, so
the main safety theorems (Props/C01, C03, C04, C10, C11 — stated for full runs) give the safety of every partial run. -/

/-- the log of a run cut at call `k` -/
def crashAt (k : Nat) (o : SyncObs) : SyncObs := { o with log := o.log.take k }

theorem C01creates_prefix_closed (v : SetView) (a b : List OAct) (h : C01creates v (a ++ b) = true) :
    C01creates v a = true := C01creates_prefix v a b h

theorem C04_prefix_closed (v : SetView) (pods : List Pod) (a b : List OAct) (h : C04 v pods (a ++ b) = true) :
    C04 v pods a = true := C04_prefix v pods a b h

/-- a partial run is judged as one that did not end well (`outOk := false`): its last delete of a Failed/Succeeded pod may
    stand without the replacing create -/
theorem C03_prefix_closed (v : SetView) (upd : String) (pods : List Pod) (a b : List OAct) (outOk : Bool)
    (h : C03 v upd pods (a ++ b) outOk = true) : C03 v upd pods a false = true := C03_prefix v upd pods a b outOk h

theorem C05_prefix_closed (v : SetView) (pods : List Pod) (a b : List OAct) (h : C05 v pods (a ++ b) = true) :
    C05 v pods a = true := C05_prefix v pods a b h

theorem C07_prefix_closed (v : SetView) (cur upd : String) (pods : List Pod) (a b : List OAct)
    (h : C07 v cur upd pods (a ++ b) = true) : C07 v cur upd pods a = true := C07_prefix v cur upd pods a b h

/-- **partial work is safe** (reconcile level): whatever number `k` of its pod-control calls a reconcile got to issue —
    because a call failed or the process died — the calls issued satisfy C01 (d), C03 (judged as a run that did not end
    well) and C04. Composition of the full-run theorems (Props/C01, C03, C04) with prefix-closure; every fault plan. -/
theorem partial_reconcile_safe (v : SetView) (cur upd : String) (pods : List Pod) (f : Faults)
    (hcr : pods.all Pod.created = true) (hids : IdsOk pods) (k : Nat) :
    C01creates v ((observe (updateStatefulSet v cur upd pods f).1.acts).take k) = true ∧
    C03 v upd pods ((observe (updateStatefulSet v cur upd pods f).1.acts).take k) false = true ∧
    C04 v pods ((observe (updateStatefulSet v cur upd pods f).1.acts).take k) = true := by
  generalize hA : observe (updateStatefulSet v cur upd pods f).1.acts = A
  have e := List.take_append_drop k A
  refine ⟨C01creates_prefix v (A.take k) (A.drop k) ?_,
    C03_prefix v upd pods (A.take k) (A.drop k) ((updateStatefulSet v cur upd pods f).2 == .ok) ?_,
    C04_prefix v pods (A.take k) (A.drop k) ?_⟩
  · rw [e, ← hA]; exact C01creates_holds_gen v cur upd pods f
  · rw [e, ← hA]; exact C03_holds_gen v cur upd pods f hids
  · rw [e, ← hA]; exact C04_holds_gen v cur upd pods f hcr hids

/- The same composition gives C05 / C07 for partial runs from `C05_holds_total` / `C07_holds_total` and
   `C05_prefix_closed` / `C07_prefix_closed`; it is not stated here because the lemma files `L1_a_*` and `L1_b_*` cannot be
   imported into one module (both define `Asts.PrepInv`). -/

/-- the per-action conditions of `allWithContext` monitors in general -/
theorem allWithContext_prefix_closed {p q : List OAct → OAct → Option OAct → Bool}
    (hsame : ∀ before x nx, p before x (some nx) = true → q before x (some nx) = true)
    (hcut : ∀ before x nx, p before x nx = true → q before x none = true)
    (a b before : List OAct) (h : allWithContext p before (a ++ b) = true) : allWithContext q before a = true :=
  allWithContext_prefix hsame hcut a b before h

theorem C10pods_prefix_closed (i : SyncIn) (plan : List Fault) (o : SyncObs) (a b : List String)
    (h : C10pods i plan { o with log := a ++ b } = true) : C10pods i plan { o with log := a } = true :=
  C10pods_prefix i plan o a b h

theorem C10revs_prefix_closed (i : SyncIn) (o : SyncObs) (a b : List String)
    (h : C10revs i { o with log := a ++ b } = true) : C10revs i { o with log := a } = true :=
  C10revs_prefix i o a b h

theorem C10set_prefix_closed (o : SyncObs) (a b : List String)
    (h : C10set { o with log := a ++ b } = true) : C10set { o with log := a } = true :=
  C10set_prefix o a b h

/-- C11 (deleting) splits into a log part and a store part; the log part is prefix-closed, the store part is read on the
    revisions as the crash left them -/
theorem C11deleting_prefix_closed (i : SyncIn) (o : SyncObs) (a b : List String) (revs' : List RevD)
    (h : C11deleting i { o with log := a ++ b } = true) (hs : C11deletingStore i revs' = true) :
    C11deleting i { o with log := a, revs := revs' } = true :=
  C11deleting_prefix i o a b revs' h hs

theorem C11deletingLog_prefix_closed (a b : List String) (h : C11deletingLog (a ++ b) = true) :
    C11deletingLog a = true := C11deletingLog_prefix a b h

theorem C11paused_prefix_closed (i : SyncIn) (o : SyncObs) (a b : List String)
    (h : C11paused i { o with log := a ++ b } = true) : C11paused i { o with log := a } = true :=
  C11paused_prefix i o a b h

/-- the ownership rules hold of a run cut at any call -/
theorem crash_keeps_C10 (i : SyncIn) (plan : List Fault) (o : SyncObs) (k : Nat)
    (hp : C10pods i plan o = true) (hr : C10revs i o = true) (hs : C10set o = true) :
    C10pods i plan (crashAt k o) = true ∧ C10revs i (crashAt k o) = true ∧ C10set (crashAt k o) = true := by
  have e : o = { o with log := o.log.take k ++ o.log.drop k } := by simp
  rw [e] at hp hr hs
  exact ⟨C10pods_prefix i plan o _ _ hp, C10revs_prefix i o _ _ hr, C10set_prefix o _ _ hs⟩

/-- the annotation (entry, index, fault) of a cut log is the cut annotation: a crash changes no earlier verdict -/
theorem annotate_prefix (plan : List Fault) (a b : List String) :
    annotate plan a <+: annotate plan (a ++ b) := by
  rw [annotate_append]; exact List.prefix_append _ _

/-- the faults that fired before the cut are the same in the cut log, and "benign so far" is inherited -/
theorem benign_prefix_closed (cx : Cx) (plan : List Fault) (n : Nat) (a b : List String)
    (h : BenignFrom cx plan n (a ++ b)) : BenignFrom cx plan n a := benignFrom_prefix h

/-- the model's log at the end of each phase is a prefix of the final log: a crash inside a later phase leaves the earlier
    phases' calls untouched -/
theorem adopt_log_is_prefix (h : Hashing) (i : SyncIn) (plan : List Fault) (hp : (i.paused || !i.selectorOk) = false)
    (hok : (adoptOrphanRevisionsF plan i.view.deleting i.fresh { store := i.store }).2 = .ok) :
    (adoptOrphanRevisionsF plan i.view.deleting i.fresh { store := i.store }).1.tr.log <+: (syncF h i plan).log := by
  rw [syncF_eq, hp]
  simp only [Bool.false_eq_true, if_false]
  rcases has : adoptOrphanRevisionsF plan i.view.deleting i.fresh { store := i.store } with ⟨s, out⟩
  rw [has] at hok
  simp only at hok
  subst hok
  exact syncAfterAdopt_prefix plan h i s

/-! ## (iv) fault-free: every error is a world reason

`worldReason h i` (a decidable predicate, `Proofs/SY_c_World`) lists what can make a sync fail although nothing is
injected: (1) an orphan revision or (2) a pod is to be adopted and the uncached read of the set finds it gone / with
another uid / being deleted; (3) every revision name the hashing offers is taken by a revision recording another template
(impossible for a hashing that depends on the collision count: `hash_reason_needs_collisions`); (4) a pod name the reconcile
needs is held by an object that is not its pod of that slot; (5) a pod with a non-canonical name is updated under a
canonical name nobody holds; (6) the set is gone when its status is written. Listing, label-sync, adoption patches,
renumbering, the refreshing reads and history truncation never fail without an injected fault. -/

/-- **C09 fault-free**: an `.err` outcome of a sync with the empty plan has a world reason. -/
theorem fault_free_err_is_world_reason (h : Hashing) (i : SyncIn) (he : (syncF h i []).outcome = .err) :
    worldReason h i = true :=
  syncF_nil_err h i he

/-- listing never fails -/
theorem fault_free_listRevs (s : RevSt) : (listRevsF [] s).2 = some (listRevisions s.store) := by
  rw [listRevsF_nil]

/-- adoption of orphan revisions fails only for reason (1), and never panics -/
theorem fault_free_adoptRevisions (del : Bool) (fresh : Fresh) (s : RevSt) :
    (adoptOrphanRevisionsF [] del fresh s).2 = .ok ∨
    ((adoptOrphanRevisionsF [] del fresh s).2 = .err ∧ del = false ∧
      (listRevisions s.store).any (·.owner == .none) = true ∧ freshOk fresh = false) :=
  adopt_nil del fresh s

/-- claiming fails only for reason (2) -/
theorem fault_free_claimPods (del : Bool) (fresh : Fresh) (pods : List CPod) (tr : Tr)
    (hf : (claimPodsF [] del fresh pods tr).failed = true) :
    freshOk fresh = false ∧ ∃ c ∈ pods, claimDecision del c = .adopt :=
  claim_nil del fresh pods tr hf

/-- renumbering succeeds at the first attempt -/
theorem fault_free_renumber (name : String) (n : Int) (fuel : Nat) (s : RevSt) :
    (renumberF [] name n (fuel + 1) s).2 = true := by
  rw [renumberF_nil]

/-- `createControllerRevision` fails exactly when every probed name is taken by a revision with other data -/
theorem fault_free_createRevision (h : Hashing) (fresh : Rev) (fuel : Nat) (cc : Int) (s : RevSt) :
    (createRevLoopF h [] fresh fuel cc s).2 = none ↔ probeFails h fresh s.store fuel cc = true :=
  createRevLoopF_nil h fresh fuel cc s

/-- `getStatefulSetRevisions` fails only for reason (3) -/
theorem fault_free_getRevisions (h : Hashing) (template scr : String) (cc0 : Int) (revs : List Rev) (s : RevSt)
    (hf : (getRevisionsF h [] template scr cc0 revs s).2 = none) :
    probeFails h (freshRev h template cc0 revs) s.store (s.store.length + 8) cc0 = true :=
  getRevisionsF_nil h template scr cc0 revs s hf

/-- reason (3) needs a colliding hashing -/
theorem hash_reason_needs_collisions (h : Hashing) (fresh : Rev) (store : List Rev) (cc : Int)
    (hinj : ∀ c1 c2, h.nameOf fresh.data c1 = h.nameOf fresh.data c2 → c1 = c2) :
    probeFails h fresh store (store.length + 8) cc = false :=
  probeFails_false_of_injective h fresh store _ cc hinj (by omega)

/-- the reconcile fails only for reasons (4) and (5), at its last action -/
theorem fault_free_reconcile (v : SetView) (cur upd : String) (ps : List Pod) (setName : String)
    (pods claimed : List CPod) (b : Int) (E : List Int)
    (he : (updateStatefulSet v cur upd ps (podFaults setName [] pods claimed b E)).2 = .err) :
    ∃ l a, (updateStatefulSet v cur upd ps (podFaults setName [] pods claimed b E)).1.acts = l ++ [a] ∧
      ((∃ o r, a = .create o r ∧ (0, o) ∈ squatOf setName pods claimed b E ∧
          ∃ c ∈ pods, c.pod.ord = o ∧ c.name = canonicalName setName o) ∨
       (∃ o, a = .update o ∧ (2, o) ∈ updFaultsOf setName pods claimed b E ∧
          ∃ c, occupantAt claimed b E o = some c ∧ c.name ≠ canonicalName setName o ∧
            pods.any (·.name == canonicalName setName o) = false)) :=
  reconcile_nil_err v cur upd ps setName pods claimed b E he

/-- the status write fails exactly for reason (6) -/
theorem fault_free_statusWrite (gone : Bool) (fuel : Nat) (t : Tr) :
    (statusWriteF [] gone (fuel + 1) t).2 = !gone := by
  rw [statusWriteF_nil]

/-- history truncation does not fail: the listing has pairwise different names and whatever was listed is still stored -/
theorem fault_free_truncate (limit : Option Int) (podRevs : List String) (revs : List Rev) (cur upd : Rev) (s : RevSt)
    (hnd : (revs.map (·.name)).Nodup) (hin : ∀ r ∈ revs, s.store.any (·.name == r.name) = true) :
    (truncateF [] limit podRevs revs cur upd s).2 ≠ .err :=
  truncateF_nil limit podRevs revs cur upd s hnd hin

/-- the listing the sync works with has pairwise different names -/
theorem listing_names_distinct (store : List Rev) : ((sortRevs (listRevisions store)).map (·.name)).Nodup :=
  sortRevs_nodup store

/-! ## non-vacuity -/

private def exH : Hashing := { nameOf := fun _ _ => "web-abc", hashNumOf := fun _ _ => none }
private def exV : SetView :=
  { replicas := some 0, slots := [], parallel := false, strat := .rolling, ru := none, deleting := false,
    generation := 1, stCurrentReplicas := 1 }
private def exR : Rev :=
  { name := "web-r1", number := 1, ctime := 0, data := "t", hashNum := Option.none, owner := Owner.self,
    selMatch := true, marker := false }
private def exP : CPod :=
  { name := "web-x", owner := Owner.self, selMatch := false, member := false,
    pod := { id := 0, ord := -1, phase := .running, ready := true, terminating := false, rev := "web-r1",
             idOk := true, stOk := true } }
private def exI : SyncIn :=
  { setName := "web", paused := false, selectorOk := true, view := exV,
    stored := { replicas := 0, currentRev := "web-r1", updateRev := "web-r1" }, collisionCount := Option.none,
    historyLimit := some 10, template := "t", fresh := { gone := false, uidOk := true, deleting := false },
    store := [exR], pods := [exP] }
/-- the release patch of `web-x` answers NotFound (benign), the first status write answers Conflict (benign) -/
private def exPlan : List Fault :=
  [{ key := "patch:pod:web-x", occ := 0, kind := .notFound }, { key := "updatestatus", occ := 0, kind := .conflict }]
/-- the same with a server error on the release patch -/
private def exPlanBad : List Fault := [{ key := "patch:pod:web-x", occ := 0, kind := .other }]

example : NamesOk exH exI :=
  { pods := by decide, nodup := by decide, store := by decide, hash := fun _ _ => (by decide : ColonFree "web-abc") }

private theorem podCtlFree_of (plan : List Fault)
    (hk : ∀ f ∈ plan, f.key.toList.take 7 ≠ "create:".toList ∧ f.key.toList.take 7 ≠ "delete:".toList ∧
      f.key.toList.take 7 ≠ "update:".toList) : PodCtlFree plan := by
  intro f hf ⟨nm, hkey⟩
  obtain ⟨h1, h2, h3⟩ := hk f hf
  rcases hkey with e | e | e
  · apply h1; rw [e]; simp [kCreatePod, toString, String.toList_append]
  · apply h2; rw [e]; simp [kDeletePod, toString, String.toList_append]
  · apply h3; rw [e]; simp [kUpdatePod, toString, String.toList_append]

example : PodCtlFree exPlan := podCtlFree_of _ (by decide)
example : PodCtlFree exPlanBad := podCtlFree_of _ (by decide)

/-- with the two benign failures the sync still succeeds (evaluated by the kernel) … -/
example : (syncF exH exI exPlan).outcome = .ok ∧
    (syncF exH exI exPlan).log =
      ["list:revs", "list:revs", "patch:pod:web-x", "list:revs", "list:revs", "updatestatus", "updatestatus"] := by
  decide +kernel
/-- … both fired … -/
example : events exPlan (syncF exH exI exPlan).log =
    [("list:revs", none), ("list:revs", none), ("patch:pod:web-x", some .notFound), ("list:revs", none),
     ("list:revs", none), ("updatestatus", some .conflict), ("updatestatus", none)] := by
  decide +kernel
/-- … and the monitor accepts the run (by the theorem; `splitOn` does not evaluate in the kernel) -/
example : C09reported exI exPlan (syncF exH exI exPlan).observe = true :=
  C09_reported exH exI exPlan
    { pods := by decide, nodup := by decide, store := by decide, hash := fun _ _ => (by decide : ColonFree "web-abc") }
    (podCtlFree_of _ (by decide))
/-- a server error on the same patch is reported -/
example : (syncF exH exI exPlanBad).outcome = .err := by decide +kernel
/-- fault-free the example world has no world reason, and one appears when the set is gone -/
example : (syncF exH exI []).outcome = .ok := by decide +kernel
example : (syncF exH { exI with fresh := { gone := true, uidOk := false, deleting := false } } []).outcome = .err ∧
    worldReason exH { exI with fresh := { gone := true, uidOk := false, deleting := false } } = true := by
  decide +kernel

/-! ## why `PodCtlFree`: two evaluated counterexamples to the unrestricted headline (gaps of the MODEL, not of the code)

`podFaults` turns a plan entry on a pod-control key into a reconcile-level fault only if its occurrence number is 0 and it can
recover the ordinal from the name (a pod of that name in the snapshot, or an ordinal below 64). Otherwise the model lets the
call succeed while `annotate` — and the real code — see the fault; `C09reported` is then `false` on the model's own output.
On the real code both cases return an error (the failure IS reported): `tools/difftool.sh sync <file>` shows `diff 1`,
`impl … out=err` against `model … out=ok`. The generator never produces such plans (it injects at occurrence 0 of calls that
occur), which is why the engines report `diff 0`.

(a) second occurrence of a pod-control key — Parallel, RollingUpdate without block, `status.currentReplicas = 1`; the Failed
    pod `web-0` is deleted and re-created at the current revision, and the update walk deletes the new object again
    (`delete:pod:web-0` twice in one reconcile); the plan fails the second delete:
0|1|1||P|R|none|0|1|1,1,1,0,web-old1,web-8459b68574,1|nil|10|B|1|0|web-8459b68574:2:1:B:8459b68574:s:1:0;web-old1:1:0:X:646b485b7b:s:1:0|web-0:0:1:F:0:0:web-old1:1:s:1|B:0=web-8459b68574:-,B:1=web-8459b68575:-,B:2=web-8459b6856d:-,B:3=web-8459b6856f:-,B:4=web-8459b68578:-,B:5=web-8459b68579:-|delete:pod:web-0@1@other
(b) ordinal ≥ 64 with no pod of that name — replicas 1, delete-slots 0..69, so the one pod is `web-70`; the plan fails its create:
0|1|1|0,1,…,69|P|R|none|0|1|0,0,0,0,web-8459b68574,web-8459b68574,1|nil|10|B|1|0|web-8459b68574:2:1:B:8459b68574:s:1:0||B:0=web-8459b68574:-,…|create:pod:web-70@0@other
In Lean: `C09reported ii pl (syncF hh ii pl).observe = false` with `(syncF hh ii pl).outcome = .ok` for the corresponding
`SyncIn` (evaluated with `#eval`). -/

end Asts.C09
