import Asts.Spec.Sync

/-! # C09 — property theorems (under construction) -/
namespace Asts.C09

end Asts.C09
