import Asts.Props.C01
import Asts.Props.C03
import Asts.Props.C04
import Asts.Props.C05
import Asts.Props.C07
import Asts.Props.C12
import Asts.Props.C02
import Asts.Proofs.GL_Final
import Asts.Proofs.GL_C14
import Asts.Proofs.GL_World
import Asts.Proofs.SY_c_Prefix

/-! # Glue — the reconcile-level properties inside every sync, in every partial run, in every round

The property theorems of `Props/C01` (d), `C03`, `C04`, `C05`, `C07`, `C12` are about ONE call of `updateStatefulSet`
on an arbitrary snapshot. This file composes them with the sync model (`syncF`, `Model/Sync.lean`) and the world model
(`round`, `runRounds`, `Model/World.lean`):

* (a) **inside every sync** — `sync_reconcile_acts` (decomposition: the actions a sync records are exactly those of
  `updateStatefulSet` on the claimed pods with the fault list the model builds) and `sync_C01creates`, `sync_C03`,
  `sync_C04`, `sync_C05`, `sync_C07`, `sync_C14`, `sync_C12_*`: the monitors are true on the actions / the status of every sync, for
  every hashing function, world and fault plan. These are the clauses `monitorSync` (`Driver/Sync.lean`) re-checks on
  the calls of the real pod control, under the same preconditions (`wfSnapshot` of the claimed pods);
* (b) **partial runs** — `partial_reconcile_ordered` (the corollary that `Props/C09.lean` could not state while the
  lemma files `L1_a_*` / `L1_b_*` clashed) and `partial_sync_safe`: every prefix of the pod-control calls of a
  reconcile / of a sync satisfies the prefix-closed monitors;
* (c) **every round** — `every_round_safe`, `every_round_ordered`: the sync of every round of `runRounds`, from any
  world, with any fault plans, satisfies them, because `settle` and `applySync` re-number the pods by position;
* (d) **C02 × C12** — `final_status_exact_census`: at a `Final` world the stored status is an exact census
  (`ExactCensus` of `Props/C12.lean`) of the set's own pods.

Hypotheses, and why each is there:
* `IdsOk (i.pods.map (·.pod))` — pod ids of the world are pairwise distinct and below `freshId` (the driver and `reindex`
  number pods by position: `world_idsOk_of_positions`); the claimed pods keep their ids, so the hypothesis passes to
  them (`sync_pods_idsOk`). The monitors recognise the pod handed to a delete by its id;
* `wfSnapshot (syncPods o)` (claimed pods carry a phase and parse to distinct ordinals) — the precondition under which
  `monitorSync` evaluates C04 / C05 / C07; it follows from the same fact about all pods of the world (`sync_pods_wf`);
* `0 ≤ replicasOf i.view` — the CRD makes `replicas` required with minimum 0. -/
namespace Asts.Glue
open Asts Asts.GL

/-! ## (a) the reconcile inside a sync -/

/-- **Decomposition.** When a sync reached its reconcile (`upd ≠ ""`, the test `monitorSync` uses), the actions it records
    are exactly the actions of `updateStatefulSet` on the claimed pods, at the revisions the sync resolved, with the
    reconcile-level fault list `podFaults` builds from the API-level plan. -/
theorem sync_reconcile_acts (h : Hashing) (i : SyncIn) (plan : List Fault) (hu : (syncF h i plan).upd ≠ "") :
    (syncF h i plan).acts =
      (updateStatefulSet i.view (syncF h i plan).cur (syncF h i plan).upd ((syncF h i plan).claimed.map (·.pod))
        (podFaults i.setName plan i.pods (syncF h i plan).claimed
          (maxReplicaAndSlots (i.view.replicas.getD 0) i.view.slots).1
          (maxReplicaAndSlots (i.view.replicas.getD 0) i.view.slots).2)).1.acts :=
  (syncF_reconcile h i plan hu).acts

/-- The same for a sync that recorded any action at all. -/
theorem sync_reconcile_acts_of_ne_nil (h : Hashing) (i : SyncIn) (plan : List Fault) (hne : (syncF h i plan).acts ≠ []) :
    (syncF h i plan).acts = (syncReconcile i plan (syncF h i plan)).1.acts :=
  (syncF_reconcile_of_acts h i plan (Or.inl hne)).acts

/-- A status is written only after a reconcile that ended `.ok`, and it is that reconcile's completed status. -/
theorem sync_status_written (h : Hashing) (i : SyncIn) (plan : List Fault) (st : Status)
    (hst : (syncF h i plan).status = some st) :
    (syncReconcile i plan (syncF h i plan)).2 = .ok ∧
    st = C12.written i.view (syncF h i plan).cur (syncF h i plan).upd (syncPods (syncF h i plan))
      (syncFaults i plan (syncF h i plan)) :=
  (syncF_reconcile_of_acts h i plan (Or.inr (by rw [hst]; simp))).status st hst

/-- The pods a sync hands to its reconcile are a sublist of the pods of the world: same objects (same ids), same order. -/
theorem sync_claimed_sublist (h : Hashing) (i : SyncIn) (plan : List Fault) :
    (syncF h i plan).claimed.Sublist i.pods :=
  syncF_claimed_sublist h i plan

/-- `wfSnapshot` is inherited by sublists … -/
theorem wfSnapshot_of_sublist {l pods : List Pod} (hs : l.Sublist pods) (hwf : wfSnapshot pods = true) :
    wfSnapshot l = true :=
  wfSnapshot_sublist hs hwf

/-- … hence by the claimed pods of every sync. -/
theorem sync_pods_wf (h : Hashing) (i : SyncIn) (plan : List Fault) (hwf : wfSnapshot (i.pods.map (·.pod)) = true) :
    wfSnapshot (syncPods (syncF h i plan)) = true :=
  wfSnapshot_sublist ((syncF_claimed_sublist h i plan).map _) hwf

/-- The claimed pods keep the ids of the world: distinct ids below `freshId` stay so, in the form `Props/C03`, `C04` ask
    for and in the form `Props/C05`, `C07` ask for. -/
theorem sync_pods_idsOk (h : Hashing) (i : SyncIn) (plan : List Fault) (hids : IdsOk (i.pods.map (·.pod))) :
    IdsOk (syncPods (syncF h i plan)) ∧ L1b.IdsOk (syncPods (syncF h i plan)) :=
  have hs := idsOk_sublist ((syncF_claimed_sublist h i plan).map _) hids
  ⟨hs, idsOkB_of_idsOk hs⟩

/-- The hypothesis on ids as the driver establishes it: pods numbered by position, fewer than `freshId` of them. -/
theorem world_idsOk_of_positions (i : SyncIn) (hpos : ∀ (k : Nat) (c : CPod), i.pods[k]? = some c → c.pod.id = k)
    (hlen : i.pods.length ≤ freshId) : IdsOk (i.pods.map (·.pod)) :=
  idsOk_of_posIds hpos hlen

/-- **C01 (d) inside every sync**: the pod-control calls of a sync create pods at desired ordinals only — every hashing,
    world, fault plan; no hypothesis. -/
theorem sync_C01creates (h : Hashing) (i : SyncIn) (plan : List Fault) :
    C01creates i.view (observe (syncF h i plan).acts) = true := by
  rcases syncF_cases h i plan with hr | hi
  · rw [hr.acts]; exact C01d.C01creates_holds _ _ _ _ _
  · rw [hi.1]; rfl

/-- **C03 inside every sync**: every delete is justified; the run is judged as one that ended well exactly when the sync
    ended `.ok` (as `monitorSync` does). -/
theorem sync_C03 (h : Hashing) (i : SyncIn) (plan : List Fault) (hids : IdsOk (i.pods.map (·.pod))) :
    C03 i.view (syncF h i plan).upd (syncPods (syncF h i plan)) (observe (syncF h i plan).acts)
      ((syncF h i plan).outcome == .ok) = true := by
  rcases syncF_cases h i plan with hr | hi
  · have h3 := C03.C03_holds i.view (syncF h i plan).cur (syncF h i plan).upd (syncPods (syncF h i plan))
      (syncFaults i plan (syncF h i plan)) (sync_pods_idsOk h i plan hids).1
    rw [hr.acts]
    by_cases hok : (syncF h i plan).outcome = .ok
    · have h2 : (syncReconcile i plan (syncF h i plan)).2 = .ok := hr.ok hok
      unfold syncReconcile at h2
      rw [h2] at h3
      rw [hok]
      exact h3
    · have hb : ((syncF h i plan).outcome == .ok) = false := by simpa using hok
      rw [hb]
      exact SYc.C03_weaken _ _ _ _ _ h3
  · rw [hi.1]; rfl

/-- **C04 inside every sync**: pods are created only at vacant desired ordinals that are no slots, never for a set that is
    being deleted. -/
theorem sync_C04 (h : Hashing) (i : SyncIn) (plan : List Fault) (hids : IdsOk (i.pods.map (·.pod)))
    (hcr : (syncPods (syncF h i plan)).all Pod.created = true) :
    C04 i.view (syncPods (syncF h i plan)) (observe (syncF h i plan).acts) = true := by
  rcases syncF_cases h i plan with hr | hi
  · rw [hr.acts]
    exact C04.C04_holds i.view _ _ _ _ hcr (sync_pods_idsOk h i plan hids).1
  · rw [hi.1]; rfl

/-- C04 under the monitor's precondition. -/
theorem sync_C04_wf (h : Hashing) (i : SyncIn) (plan : List Fault) (hids : IdsOk (i.pods.map (·.pod)))
    (hwf : wfSnapshot (syncPods (syncF h i plan)) = true) :
    C04 i.view (syncPods (syncF h i plan)) (observe (syncF h i plan).acts) = true :=
  sync_C04 h i plan hids (created_of_wf hwf)

/-- **C05 inside every sync** (policy other than Parallel): one ordinal per sync, predecessors healthy, scale-in from the
    top, update only when settled. -/
theorem sync_C05 (h : Hashing) (i : SyncIn) (plan : List Fault) (h0 : 0 ≤ replicasOf i.view)
    (hmono : i.view.parallel = false) (hids : IdsOk (i.pods.map (·.pod)))
    (hwf : wfSnapshot (syncPods (syncF h i plan)) = true) :
    C05 i.view (syncPods (syncF h i plan)) (observe (syncF h i plan).acts) = true := by
  rcases syncF_cases h i plan with hr | hi
  · rw [hr.acts]
    exact C05.C05_holds_total i.view _ _ _ _ h0 hmono hwf (sync_pods_idsOk h i plan hids).2
  · rw [hi.1]; exact C05_nil _ _

/-- **C07 inside every sync** (both policies): partition, highest first, one update-delete, OnDelete never restarts,
    revisions of created pods. -/
theorem sync_C07 (h : Hashing) (i : SyncIn) (plan : List Fault) (h0 : 0 ≤ replicasOf i.view)
    (hids : IdsOk (i.pods.map (·.pod))) (hwf : wfSnapshot (syncPods (syncF h i plan)) = true) :
    C07 i.view (syncF h i plan).cur (syncF h i plan).upd (syncPods (syncF h i plan))
      (observe (syncF h i plan).acts) = true := by
  rcases syncF_cases h i plan with hr | hi
  · rw [hr.acts]
    exact C07.C07_holds_total i.view _ _ _ _ h0 hwf (sync_pods_idsOk h i plan hids).2
  · rw [hi.1]; exact C07_nil _ _ _ _

/-- **C14 inside every sync** (Parallel): a sync that reached its reconcile and ended `.ok` filled every vacancy,
    replaced every Failed/Succeeded desired pod and deleted every live condemned pod in that one pass, with at most one
    update-delete — for EVERY fault plan (a sync that ended `.ok` hit no pod-control fault, so its reconcile ran as the
    fault-free one: `GL.updateStatefulSet_of_ok`). These are the preconditions of the `C14.burst` clause of
    `monitorSync`, minus its restriction to empty plans; no int32 hypothesis is needed, an `.ok` outcome excludes the
    panics. -/
theorem sync_C14 (h : Hashing) (i : SyncIn) (plan : List Fault) (h0 : 0 ≤ replicasOf i.view)
    (hpar : i.view.parallel = true) (hdel : i.view.deleting = false) (hids : IdsOk (i.pods.map (·.pod)))
    (hwf : wfSnapshot (syncPods (syncF h i plan)) = true)
    (hu : (syncF h i plan).upd ≠ "") (hok : (syncF h i plan).outcome = .ok) :
    C14 i.view (syncPods (syncF h i plan)) (observe (syncF h i plan).acts) = true := by
  have hr := syncF_reconcile h i plan hu
  have hrok : (updateStatefulSet i.view (syncF h i plan).cur (syncF h i plan).upd (syncPods (syncF h i plan))
      (syncFaults i plan (syncF h i plan))).2 = .ok := hr.ok hok
  rw [hr.acts]
  cases hrep : i.view.replicas with
  | none =>
    exfalso
    unfold updateStatefulSet prepare at hrok
    rw [hrep] at hrok
    simp at hrok
  | some r =>
    have h0r : 0 ≤ r := by simpa [replicasOf, hrep] using h0
    exact C14_of_ok i.view _ _ _ _ r hrep h0r hpar hdel hwf (sync_pods_idsOk h i plan hids).1 hrok

/-- **C12 (bounds) on every status a sync writes.** -/
theorem sync_C12_bounds (h : Hashing) (i : SyncIn) (plan : List Fault) (st : Status)
    (hst : (syncF h i plan).status = some st) (hcr : ∀ c ∈ (syncF h i plan).claimed, c.pod.created = true) :
    C12bounds st = true := by
  obtain ⟨hok, rfl⟩ := sync_status_written h i plan st hst
  refine C12.C12_bounds i.view _ _ _ _ ?_ hok
  intro p hp
  obtain ⟨c, hc, rfl⟩ := List.mem_map.1 hp
  exact hcr c hc

/-- **C12 (generation) on every status a sync writes**, against any stored status. -/
theorem sync_C12_generation (h : Hashing) (i : SyncIn) (plan : List Fault) (st stored : Status)
    (hst : (syncF h i plan).status = some st) : C12gen i.view stored st = true := by
  obtain ⟨hok, rfl⟩ := sync_status_written h i plan st hst
  exact C12.C12_generation i.view _ _ _ _ stored hok

/-- **C12 (completion) on every status a sync writes**: `currentRevision` moves only to `updateRevision`, only when every
    claimed pod is healthy at the update revision and the sync created and deleted nothing. -/
theorem sync_C12_completion (h : Hashing) (i : SyncIn) (plan : List Fault) (st : Status)
    (hst : (syncF h i plan).status = some st) :
    C12complete (syncF h i plan).cur (syncF h i plan).upd (syncPods (syncF h i plan))
      (observe (syncF h i plan).acts) st = true := by
  have hr := syncF_reconcile_of_acts h i plan (Or.inr (by rw [hst]; simp))
  obtain ⟨hok, rfl⟩ := sync_status_written h i plan st hst
  rw [hr.acts]
  exact C12.C12_completion i.view _ _ _ _ hok

/-- **All at once, from facts about the world only**: pods numbered by position, carrying a phase, parsing to distinct
    ordinals. The clauses are those of `monitorSync`. -/
theorem sync_reconcile_level (h : Hashing) (i : SyncIn) (plan : List Fault) (h0 : 0 ≤ replicasOf i.view)
    (hpos : ∀ (k : Nat) (c : CPod), i.pods[k]? = some c → c.pod.id = k) (hlen : i.pods.length ≤ freshId)
    (hwf : wfSnapshot (i.pods.map (·.pod)) = true) :
    C01creates i.view (observe (syncF h i plan).acts) = true ∧
    C03 i.view (syncF h i plan).upd (syncPods (syncF h i plan)) (observe (syncF h i plan).acts)
      ((syncF h i plan).outcome == .ok) = true ∧
    C04 i.view (syncPods (syncF h i plan)) (observe (syncF h i plan).acts) = true ∧
    (i.view.parallel = false → C05 i.view (syncPods (syncF h i plan)) (observe (syncF h i plan).acts) = true) ∧
    C07 i.view (syncF h i plan).cur (syncF h i plan).upd (syncPods (syncF h i plan))
      (observe (syncF h i plan).acts) = true ∧
    (∀ st, (syncF h i plan).status = some st → C12bounds st = true ∧ C12gen i.view i.stored st = true) := by
  have hids := world_idsOk_of_positions i hpos hlen
  have hw := sync_pods_wf h i plan hwf
  refine ⟨sync_C01creates h i plan, sync_C03 h i plan hids, sync_C04_wf h i plan hids hw,
    fun hm => sync_C05 h i plan h0 hm hids hw, sync_C07 h i plan h0 hids hw, fun st hst => ⟨?_, ?_⟩⟩
  · refine sync_C12_bounds h i plan st hst (fun c hc => ?_)
    have := (wfSnapshot_iff _).1 hw
    exact this.1 c.pod (List.mem_map_of_mem hc)
  · exact sync_C12_generation h i plan st i.stored hst

/-! ## (b) partial runs -/

/-- **partial work is safe, ordering part** (reconcile level; next to `C09.partial_reconcile_safe`, which covers C01 (d),
    C03 and C04): whatever number `k` of its pod-control calls a reconcile got to issue — because a call failed or the
    process died — the calls issued satisfy C05 (policy other than Parallel) and C07. Composition of the full-run theorems
    (`Props/C05`, `Props/C07`) with prefix-closure (`SY_c_Prefix`); every fault plan. -/
theorem partial_reconcile_ordered (v : SetView) (cur upd : String) (pods : List Pod) (f : Faults)
    (h0 : 0 ≤ replicasOf v) (hwf : wfSnapshot pods = true) (hids : IdsOk pods) (k : Nat) :
    (v.parallel = false → C05 v pods ((observe (updateStatefulSet v cur upd pods f).1.acts).take k) = true) ∧
    C07 v cur upd pods ((observe (updateStatefulSet v cur upd pods f).1.acts).take k) = true := by
  generalize hA : observe (updateStatefulSet v cur upd pods f).1.acts = A
  have e := List.take_append_drop k A
  refine ⟨fun hmono => SYc.C05_prefix v pods (A.take k) (A.drop k) ?_,
    SYc.C07_prefix v cur upd pods (A.take k) (A.drop k) ?_⟩
  · rw [e, ← hA]; exact C05.C05_holds_total v cur upd pods f h0 hmono hwf (idsOkB_of_idsOk hids)
  · rw [e, ← hA]; exact C07.C07_holds_total v cur upd pods f h0 hwf (idsOkB_of_idsOk hids)

/-- The same with the id hypothesis in the form `Props/C05` and `Props/C07` use. -/
theorem partial_reconcile_ordered_b (v : SetView) (cur upd : String) (pods : List Pod) (f : Faults)
    (h0 : 0 ≤ replicasOf v) (hwf : wfSnapshot pods = true) (hids : L1b.IdsOk pods) (k : Nat) :
    (v.parallel = false → C05 v pods ((observe (updateStatefulSet v cur upd pods f).1.acts).take k) = true) ∧
    C07 v cur upd pods ((observe (updateStatefulSet v cur upd pods f).1.acts).take k) = true := by
  generalize hA : observe (updateStatefulSet v cur upd pods f).1.acts = A
  have e := List.take_append_drop k A
  refine ⟨fun hmono => SYc.C05_prefix v pods (A.take k) (A.drop k) ?_,
    SYc.C07_prefix v cur upd pods (A.take k) (A.drop k) ?_⟩
  · rw [e, ← hA]; exact C05.C05_holds_total v cur upd pods f h0 hmono hwf hids
  · rw [e, ← hA]; exact C07.C07_holds_total v cur upd pods f h0 hwf hids

/-- **Every partial run of the pod control inside a sync is safe**: whatever number `k` of the pod-control calls of a sync
    were issued before the process died, they satisfy C01 (d), C03 (judged as a run that did not end well), C04, C05 and
    C07 — every hashing, world and fault plan. -/
theorem partial_sync_safe (h : Hashing) (i : SyncIn) (plan : List Fault) (h0 : 0 ≤ replicasOf i.view)
    (hids : IdsOk (i.pods.map (·.pod))) (hwf : wfSnapshot (syncPods (syncF h i plan)) = true) (k : Nat) :
    C01creates i.view ((observe (syncF h i plan).acts).take k) = true ∧
    C03 i.view (syncF h i plan).upd (syncPods (syncF h i plan)) ((observe (syncF h i plan).acts).take k) false = true ∧
    C04 i.view (syncPods (syncF h i plan)) ((observe (syncF h i plan).acts).take k) = true ∧
    (i.view.parallel = false →
      C05 i.view (syncPods (syncF h i plan)) ((observe (syncF h i plan).acts).take k) = true) ∧
    C07 i.view (syncF h i plan).cur (syncF h i plan).upd (syncPods (syncF h i plan))
      ((observe (syncF h i plan).acts).take k) = true := by
  have h1 := sync_C01creates h i plan
  have h3 := sync_C03 h i plan hids
  have h4 := sync_C04_wf h i plan hids hwf
  have h5 := fun hm => sync_C05 h i plan h0 hm hids hwf
  have h7 := sync_C07 h i plan h0 hids hwf
  generalize observe (syncF h i plan).acts = A at h1 h3 h4 h5 h7 ⊢
  have e := List.take_append_drop k A
  rw [← e] at h1 h3 h4 h5 h7
  exact ⟨SYc.C01creates_prefix _ _ _ h1, SYc.C03_prefix _ _ _ _ _ _ h3, SYc.C04_prefix _ _ _ _ h4,
    fun hm => SYc.C05_prefix _ _ _ _ (h5 hm), SYc.C07_prefix _ _ _ _ _ _ h7⟩

/-! ## (c) every round -/

/-- The sync a round runs is the sync of the settled world, and the next world is `applySync` of its output. -/
theorem round_runs_sync (h : Hashing) (i : SyncIn) (plan : List Fault) :
    (round h i plan).1 = applySync (settle i) plan (syncF h (settle i) plan) := rfl

/-- **`reindex` makes ids positions.** -/
theorem reindex_ids_are_positions (l : List CPod) (k : Nat) (c : CPod) (hk : (reindex l)[k]? = some c) : c.pod.id = k :=
  reindex_posIds l k c hk

/-- **`settle` ends with `reindex (sortPods …)`** (of at most as many pods) … -/
theorem settle_ends_with_reindex (i : SyncIn) :
    ∃ l, (settle i).pods = reindex (sortPods l) ∧ l.length ≤ i.pods.length := settle_pods i

/-- … **and so does `applySync`**: after every round, and again after the `settle` that opens the next one, pod ids are
    positions. -/
theorem applySync_ends_with_reindex (i : SyncIn) (plan : List Fault) (o : SyncOut) :
    ∃ l, (applySync i plan o).pods = reindex (sortPods l) := applySync_pods i plan o

/-- Hence the world every round syncs on satisfies the id hypothesis, whatever world the round starts from, as long as it
    holds at most `freshId` (one million) pod objects. -/
theorem settled_world_idsOk (i : SyncIn) (hlen : i.pods.length ≤ freshId) : IdsOk ((settle i).pods.map (·.pod)) :=
  settle_idsOk i hlen

/-- and from the second round on the ids are positions even before `settle` -/
theorem reached_world_ids_are_positions (h : Hashing) (i : SyncIn) (plans : List (List Fault)) (hne : plans ≠ [])
    (k : Nat) (c : CPod) (hk : (roundsWith h plans i).pods[k]? = some c) : c.pod.id = k :=
  roundsWith_posIds h plans i hne k c hk

/-- Every observation `runRounds` returns is the observation of one `round` on a world reached from the initial one by
    rounds (`roundsWith`): the statements below are about every round of every run. -/
theorem runRounds_rounds (h : Hashing) (fuel silent : Nat) (i : SyncIn) (plan : List Fault) :
    ∀ r ∈ runRounds h fuel silent i plan,
      ∃ (plans : List (List Fault)) (p : List Fault), r = (round h (roundsWith h plans i) p).2 :=
  runRounds_obs h fuel silent i plan

/-- **Every round is safe.** For every number of rounds, every world `w` reached from `i` by that many rounds with any
    fault plans, and every fault plan of the next round: the sync that round runs (`syncF h (settle w) plan`) satisfies
    C01 (d) and C03, and C04 when every claimed pod carries a phase. No hypothesis on `i` other than the size of `w`. -/
theorem every_round_safe (h : Hashing) (i : SyncIn) (plans : List (List Fault)) (plan : List Fault)
    (hlen : (roundsWith h plans i).pods.length ≤ freshId) :
    C01creates i.view (observe (syncF h (settle (roundsWith h plans i)) plan).acts) = true ∧
    C03 (settle (roundsWith h plans i)).view (syncF h (settle (roundsWith h plans i)) plan).upd
      (syncPods (syncF h (settle (roundsWith h plans i)) plan))
      (observe (syncF h (settle (roundsWith h plans i)) plan).acts)
      ((syncF h (settle (roundsWith h plans i)) plan).outcome == .ok) = true ∧
    ((syncPods (syncF h (settle (roundsWith h plans i)) plan)).all Pod.created = true →
      C04 (settle (roundsWith h plans i)).view (syncPods (syncF h (settle (roundsWith h plans i)) plan))
        (observe (syncF h (settle (roundsWith h plans i)) plan).acts) = true) := by
  have hids := settle_idsOk (roundsWith h plans i) hlen
  refine ⟨?_, sync_C03 h _ plan hids, fun hcr => sync_C04 h _ plan hids hcr⟩
  have h1 := sync_C01creates h (settle (roundsWith h plans i)) plan
  unfold C01creates at h1 ⊢
  rw [settle_view, roundsWith_replicasOf, roundsWith_view] at h1
  exact h1

/-- **Every round is safe, ordering part.** In the same situation, when the claimed pods of that round carry a phase and
    parse to distinct ordinals (the monitor's precondition), the round's sync satisfies C04, C05 (policy other than
    Parallel) and C07. The spec hypotheses are stated on the initial world: rounds do not change the spec. -/
theorem every_round_ordered (h : Hashing) (i : SyncIn) (plans : List (List Fault)) (plan : List Fault)
    (h0 : 0 ≤ replicasOf i.view) (hlen : (roundsWith h plans i).pods.length ≤ freshId)
    (hwf : wfSnapshot (syncPods (syncF h (settle (roundsWith h plans i)) plan)) = true) :
    C04 (settle (roundsWith h plans i)).view (syncPods (syncF h (settle (roundsWith h plans i)) plan))
      (observe (syncF h (settle (roundsWith h plans i)) plan).acts) = true ∧
    (i.view.parallel = false →
      C05 (settle (roundsWith h plans i)).view (syncPods (syncF h (settle (roundsWith h plans i)) plan))
        (observe (syncF h (settle (roundsWith h plans i)) plan).acts) = true) ∧
    C07 (settle (roundsWith h plans i)).view (syncF h (settle (roundsWith h plans i)) plan).cur
      (syncF h (settle (roundsWith h plans i)) plan).upd (syncPods (syncF h (settle (roundsWith h plans i)) plan))
      (observe (syncF h (settle (roundsWith h plans i)) plan).acts) = true := by
  have hids := settle_idsOk (roundsWith h plans i) hlen
  have h0' : 0 ≤ replicasOf (settle (roundsWith h plans i)).view := by
    rw [settle_view, roundsWith_replicasOf]; exact h0
  refine ⟨sync_C04_wf h _ plan hids hwf, fun hm => sync_C05 h _ plan h0' ?_ hids hwf, sync_C07 h _ plan h0' hids hwf⟩
  rw [settle_view, roundsWith_parallel]; exact hm

/-- the precondition of `every_round_ordered` from a fact about the reached world: its live pods carry a phase and parse
    to distinct ordinals -/
theorem round_pods_wf (h : Hashing) (w : SyncIn) (plan : List Fault)
    (hwf : wfSnapshot ((settle w).pods.map (·.pod)) = true) :
    wfSnapshot (syncPods (syncF h (settle w) plan)) = true :=
  sync_pods_wf h (settle w) plan hwf

/-! ## (d) C02 × C12: the quiescent state carries an exact census -/

/-- **At a `Final` world the stored status is an exact census of the set's own pods**, in the independently written
    counting specification `ExactCensus` of `Props/C12.lean`: `replicas` = number of own pods, `readyReplicas` = those
    Running and Ready, `currentReplicas` / `updatedReplicas` = those admitted, not terminating and labelled with
    `status.currentRevision` / `status.updateRevision`. (The `C12census` clause of the world monitor, proved for `Final`.) -/
theorem final_status_exact_census (h : Hashing) (i : SyncIn) (hf : C02p.Final h i) :
    C12.ExactCensus i.stored.currentRev i.stored.updateRev ((C02p.ownPods i).map (·.pod)) i.stored :=
  final_census hf

/-- `C02_final_counts` phrased with the counting specification: at a `Final` world the number of own pods and the number
    of Running-and-Ready own pods both equal `spec.replicas`. -/
theorem final_census_counts (h : Hashing) (i : SyncIn) (hf : C02p.Final h i) :
    (((C02p.ownPods i).map (·.pod)).length : Int) = replicasOf i.view ∧
    C12.countIf C12.IsReady ((C02p.ownPods i).map (·.pod)) = replicasOf i.view := by
  have hc := final_census hf
  obtain ⟨h1, h2⟩ := C02.C02_final_counts h i hf
  exact ⟨by rw [← hc.total]; exact h1, by rw [← hc.ready]; exact h2⟩

/-- … and it stays so: after any number of further rounds the stored status is still an exact census. -/
theorem final_census_forever (h : Hashing) (i : SyncIn) (hf : C02p.Final h i) (n : Nat) :
    C12.ExactCensus (C02p.roundsN h n i).stored.currentRev (C02p.roundsN h n i).stored.updateRev
      ((C02p.ownPods (C02p.roundsN h n i)).map (·.pod)) (C02p.roundsN h n i).stored :=
  final_census (C02.C02_quiet_forever h i hf n).1

/-! ## non-vacuity

`gW`: set `web`, 3 replicas, slot 1, OrderedReady, template changed (`a` → `b`). Pods: `web-0`, `web-3`, `web-5` controlled
by the set, `web-2` an orphan (adopted), `stranger` somebody else's. The claimed pods are a proper sublist of the pods of
the world and keep the ids of the world (`[0, 2, 3, 4]` — not their positions in the claimed list). -/
private def gH : Hashing := { nameOf := fun d c => s!"web-{d}{c}", hashNumOf := fun _ _ => none }
private def gPod (id : Nat) (ord : Int) (rev : String) : Pod :=
  { id := id, ord := ord, phase := .running, ready := true, terminating := false, rev := rev, idOk := true, stOk := true }
private def gW : SyncIn :=
  { setName := "web", paused := false, selectorOk := true,
    view := { replicas := some 3, slots := [1], parallel := false, strat := .rolling, ru := some (some 0),
              deleting := false, generation := 2, stCurrentReplicas := 3 },
    stored := { replicas := 3, ready := 3, current := 3, updated := 0, currentRev := "web-a", updateRev := "web-a",
                observedGen := 1 },
    collisionCount := none, historyLimit := some 2, template := "b",
    fresh := { gone := false, uidOk := true, deleting := false },
    store := [ { name := "web-a", number := 1, ctime := 0, data := "a", hashNum := none, owner := .self, selMatch := true,
                 marker := false } ],
    pods := [ { name := "web-0", pod := gPod 0 0 "web-a", owner := .self, selMatch := true, member := true },
              { name := "stranger", pod := gPod 1 (-1) "", owner := .other, selMatch := false, member := false },
              { name := "web-2", pod := gPod 2 2 "web-a", owner := .none, selMatch := true, member := true },
              { name := "web-3", pod := gPod 3 3 "web-a", owner := .self, selMatch := true, member := true },
              { name := "web-5", pod := gPod 4 5 "web-a", owner := .self, selMatch := true, member := true } ] }

/-- the hypotheses of `sync_reconcile_level` hold on `gW` … -/
example : 0 ≤ replicasOf gW.view ∧ gW.pods.length ≤ freshId ∧ wfSnapshot (gW.pods.map (·.pod)) = true ∧
    gW.pods.map (·.pod.id) = List.range gW.pods.length := by decide

/-- … the sync reaches its reconcile, scales in from the top and writes a status -/
example : (syncF gH gW []).upd = "web-b0" ∧ (syncF gH gW []).cur = "web-a" ∧
    (syncF gH gW []).acts = [.delete 5 4 .scaleDown] ∧
    (syncF gH gW []).claimed.map (·.pod.id) = [0, 2, 3, 4] ∧
    (syncF gH gW []).log = ["list:revs", "list:revs", "get:set", "patch:pod:web-2", "list:revs", "list:revs",
      "create:rev:web-b0", "delete:pod:web-5", "updatestatus"] ∧
    ((syncF gH gW []).status.map (·.replicas)) = some 4 := by decide

/-- the Parallel variant: scale-in and the one update-delete in the same sync, which ends `.ok` (hypotheses of `sync_C14`) -/
example : (syncF gH { gW with view := { gW.view with parallel := true } } []).acts
      = [.delete 5 4 .scaleDown, .delete 3 3 .update] ∧
    (syncF gH { gW with view := { gW.view with parallel := true } } []).outcome = .ok ∧
    (syncF gH { gW with view := { gW.view with parallel := true } } []).upd = "web-b0" ∧
    wfSnapshot (syncPods (syncF gH { gW with view := { gW.view with parallel := true } } [])) = true := by decide

/-- rounds: the sync of the first round runs on the settled world — pods sorted by name and re-numbered (`stranger` gets
    id 0, `web-5` keeps 4) — and the hypotheses of `every_round_ordered` hold there -/
example : (syncF gH (settle (roundsWith gH [] gW)) []).acts = [.delete 5 4 .scaleDown] ∧
    (syncF gH (settle (roundsWith gH [] gW)) []).claimed.map (·.pod.id) = [1, 2, 3, 4] ∧
    (roundsWith gH [] gW).pods.length ≤ freshId ∧
    wfSnapshot (syncPods (syncF gH (settle (roundsWith gH [] gW)) [])) = true := by decide +kernel

end Asts.Glue
