import Asts.Proofs.EditAlgebra
import Asts.Proofs.L1_e_SlotOut

/-! # C01 / C03 over sequences of user edits — the algebra of the desired ordinal set

Property theorems only (lemmas in `Asts/Proofs/EditAlgebra.lean`). `podOrdinals` is the model of the helper
(`GetPodOrdinalsFromReplicasAndDeleteSlots`, tied to the code by the `ordinals` engine), `desired` the executable
specification; `podOrdinals_eq_desired'` joins the two for every `r`. Every statement is for all replica counts and all slot lists
(duplicates, negative entries, entries beyond the range included). What a *reconcile* then does with the new desired set is
C03 (`slot_k_only`), C04 and C05; what a *history* of such edits converges to is `C02_after_last_edit`. -/
namespace Asts.Edits
open List

/-- the annotation is read as a set: two slot lists with the same members give the same desired ordinals (order and
    duplicates never matter) -/
theorem slots_as_set (r : Int) (S T : List Int) (h : ∀ x, x ∈ S ↔ x ∈ T) : podOrdinals r S = podOrdinals r T := by
  simp only [podOrdinals_eq_desired'] at *; exact desired_congr r S T h

/-- negative entries of the annotation have no effect (repaired defect #1 of §8: they used to extend the range) -/
theorem negative_slots_ignored (r : Int) (S : List Int) :
    podOrdinals r (S.filter (fun s => decide (0 ≤ s))) = podOrdinals r S := by
  simp only [podOrdinals_eq_desired'] at *; exact desired_nonneg_slots r S

/-- **plain scale-in by one** (`replicas` r + 1 → r, annotation untouched) removes the top ordinal and no other -/
theorem scale_in_removes_top (r : Int) (S : List Int) (hr : 0 ≤ r) : podOrdinals r S = (podOrdinals (r + 1) S).dropLast := by
  simp only [podOrdinals_eq_desired'] at *; exact (desired_dropLast r S hr).symm

/-- **plain scale-out by one** appends one ordinal — above all the others, not a slot — and keeps every desired ordinal -/
theorem scale_out_appends (r : Int) (S : List Int) (hr : 0 ≤ r) :
    ∃ n, podOrdinals (r + 1) S = podOrdinals r S ++ [n] ∧ 0 ≤ n ∧ n ∉ S ∧ ∀ o ∈ podOrdinals r S, o < n := by
  simp only [podOrdinals_eq_desired'] at *; exact desired_succ r S hr

/-- scaling out by any amount never makes a desired ordinal undesired -/
theorem scale_out_keeps (r : Int) (S : List Int) (d : Nat) (hr : 0 ≤ r) : ∀ o ∈ podOrdinals r S, o ∈ podOrdinals (r + d) S := by
  simp only [podOrdinals_eq_desired'] at *; exact desired_mono r S d hr

/-- **scaling by any amount never renumbers a pod**: the desired set of the smaller replica count is a prefix of the larger
    one's — a scale-out by `d` keeps every ordinal and adds `d` higher ones, a scale-in by `d` removes exactly the `d` highest -/
theorem scaling_never_renumbers (r : Int) (S : List Int) (d : Nat) (hr : 0 ≤ r) :
    ∃ L, podOrdinals (r + d) S = podOrdinals r S ++ L ∧ L.length = d ∧ ∀ o ∈ podOrdinals r S, ∀ n ∈ L, o < n := by
  simp only [podOrdinals_eq_desired'] at *; exact desired_prefix r S d hr

/-- **scale-in at slot k** (list `k`, decrement `replicas`): the desired set loses exactly `k` -/
theorem slot_in_removes_k (r : Int) (S : List Int) (k : Int) (h1 : 1 ≤ r) (hk : k ∈ podOrdinals r S) :
    podOrdinals (r - 1) (k :: S) = (podOrdinals r S).erase k := by
  simp only [podOrdinals_eq_desired'] at *; exact desired_cons_erase r S k h1 hk

/-- **scale-in at slot `k` with `replicas` unchanged** (the pod is *moved*): the desired set loses exactly `k` and gains exactly
    one ordinal, above all the others and not a slot -/
theorem slot_in_same_replicas_moves_k (r : Int) (S : List Int) (k : Int) (h1 : 1 ≤ r) (hk : k ∈ podOrdinals r S) :
    ∃ n, podOrdinals r (k :: S) = (podOrdinals r S).erase k ++ [n] ∧ 0 ≤ n ∧ n ∉ k :: S ∧
      ∀ o ∈ (podOrdinals r S).erase k, o < n := by
  simp only [podOrdinals_eq_desired'] at *; exact desired_cons_same r S k h1 hk

/-- **scale-out at slot k** (un-list `k`, increment `replicas`): when `k` lies below the new bound the desired set gains
    exactly `k` — every other ordinal stays as it was … -/
theorem slot_out_restores_k (r : Int) (S : List Int) (k : Int) (hr : 0 ≤ r) (hkS : k ∈ S)
    (hk : k ∈ podOrdinals (r + 1) (S.filter (fun s => decide (s ≠ k)))) :
    (podOrdinals (r + 1) (S.filter (fun s => decide (s ≠ k)))).erase k = podOrdinals r S := by
  simp only [podOrdinals_eq_desired'] at *; exact desired_unlist_erase r S k hr hkS hk

/-- … and when it lies beyond the bound, un-listing it is no edit at all (the slot was not in effect) -/
theorem unlist_beyond_bound_is_noop (r : Int) (S : List Int) (k : Int)
    (hk : k ∉ podOrdinals r (S.filter (fun s => decide (s ≠ k)))) :
    podOrdinals r (S.filter (fun s => decide (s ≠ k))) = podOrdinals r S := by
  simp only [podOrdinals_eq_desired'] at *; exact desired_unlist_ineffective r S k hk

/-- **there and back**: scale in at slot `k`, then undo the edit — the desired set is the one before the two edits -/
theorem slot_in_then_out (r : Int) (S : List Int) (k : Int) (hkS : k ∉ S) :
    podOrdinals (r - 1 + 1) ((k :: S).filter (fun s => decide (s ≠ k))) = podOrdinals r S := by
  simp only [podOrdinals_eq_desired'] at *; exact desired_list_unlist r S k hkS

/-! non-vacuity: replicas 4, slots [1]: pods 0 2 3 4. Scale in at slot 3 → 0 2 4; undo → 0 2 3 4; un-list 1 and go to 5 →
    0 1 2 3 4 (gains exactly 1); a slot beyond the bound (9) is not in effect. -/
example : podOrdinals 4 [1] = [0, 2, 3, 4] ∧ (3 : Int) ∈ podOrdinals 4 [1] ∧ podOrdinals 3 [3, 1] = [0, 2, 4] := by decide
example : (1 : Int) ∈ podOrdinals 5 ([1].filter (fun s => decide (s ≠ 1))) ∧
    (podOrdinals 5 ([1].filter (fun s => decide (s ≠ 1)))).erase 1 = podOrdinals 4 [1] := by decide
example : (9 : Int) ∉ podOrdinals 4 ([1, 9].filter (fun s => decide (s ≠ 9))) ∧ podOrdinals 4 [1, 9] = [0, 2, 3, 4] := by decide
example : podOrdinals 4 [1, 1, -3] = podOrdinals 4 [1] := by decide
example : podOrdinals 4 [3, 1] = (podOrdinals 4 [1]).erase 3 ++ [5] := by decide

/-! ## what the reconcile does after a scale-out at slot `k` (the converse of C03's `slot_k_only`) -/

/-- **slot_out_only**: one pod per ordinal of the desired set except `k`, all healthy, at the update revision, identity and
    storage in order; a pod created at `k` would be at the update revision (no roll-out pending below a partition). The
    reconcile issues exactly one action — the creation of pod `k` — under either policy, every strategy and every fault plan,
    and ends ok unless that very create is made to fail — and then it reports the error (C09). No pod is deleted, updated or created anywhere else. -/
theorem slot_out_only (v : SetView) (cur upd : String) (pods : List Pod) (f : Faults) (r k : Int)
    (hr : v.replicas = some r) (hk : k ∈ desired r v.slots) (hdel : v.deleting = false)
    (hperm : (pods.map Pod.ord).Perm ((desired r v.slots).erase k))
    (hgood : ∀ p ∈ pods, p.healthy = true ∧ p.rev = upd ∧ p.idOk = true ∧ p.stOk = true)
    (hrev : newPodRev v cur upd k = upd) :
    (updateStatefulSet v cur upd pods f).1.acts = [.create k upd] ∧
    (f.hit 0 k = false → (updateStatefulSet v cur upd pods f).2 = .ok) ∧
    (f.hit 0 k = true → (updateStatefulSet v cur upd pods f).2 = .err) :=
  slot_out_only_gen v cur upd pods f r k hr hk hdel hperm hgood hrev

/-- the same, phrased as the user's edit: the pods are exactly those of `desired r S` (a converged set), the user un-lists
    the effective slot `k` and raises `replicas` to `r + 1`; the next reconcile creates pod `k` and nothing else -/
theorem unlist_edit_creates_only_k (v : SetView) (cur upd : String) (pods : List Pod) (f : Faults) (r k : Int) (S : List Int)
    (h0 : 0 ≤ r) (hkS : k ∈ S) (hr : v.replicas = some (r + 1)) (hs : v.slots = S.filter (fun s => decide (s ≠ k)))
    (hk : k ∈ desired (r + 1) v.slots) (hdel : v.deleting = false)
    (hperm : (pods.map Pod.ord).Perm (desired r S))
    (hgood : ∀ p ∈ pods, p.healthy = true ∧ p.rev = upd ∧ p.idOk = true ∧ p.stOk = true)
    (hrev : newPodRev v cur upd k = upd) :
    (updateStatefulSet v cur upd pods f).1.acts = [.create k upd] ∧
    (f.hit 0 k = false → (updateStatefulSet v cur upd pods f).2 = .ok) ∧
    (f.hit 0 k = true → (updateStatefulSet v cur upd pods f).2 = .err) := by
  refine slot_out_only_gen v cur upd pods f (r + 1) k hr hk hdel ?_ hgood hrev
  rw [hs] at hk ⊢
  rw [desired_unlist_erase r S k h0 hkS hk]
  exact hperm

/-- **plain scale-out by one from a converged set**: the pods are exactly those of `desired r S`, `replicas` becomes `r + 1`
    with the annotation untouched; the next reconcile creates the one appended ordinal (`scale_out_appends`) and nothing else -/
theorem scale_out_edit_creates_only_next (v : SetView) (cur upd : String) (pods : List Pod) (f : Faults) (r : Int)
    (h0 : 0 ≤ r) (hr : v.replicas = some (r + 1)) (hdel : v.deleting = false)
    (hperm : (pods.map Pod.ord).Perm (desired r v.slots))
    (hgood : ∀ p ∈ pods, p.healthy = true ∧ p.rev = upd ∧ p.idOk = true ∧ p.stOk = true)
    (hrev : ∀ n, newPodRev v cur upd n = upd) :
    ∃ n, desired (r + 1) v.slots = desired r v.slots ++ [n] ∧
      (updateStatefulSet v cur upd pods f).1.acts = [.create n upd] ∧
      (f.hit 0 n = false → (updateStatefulSet v cur upd pods f).2 = .ok) ∧
      (f.hit 0 n = true → (updateStatefulSet v cur upd pods f).2 = .err) := by
  obtain ⟨n, hn, -, -, hlt⟩ := desired_succ r v.slots h0
  have hnot : n ∉ desired r v.slots := fun h => by have := hlt n h; omega
  refine ⟨n, hn, slot_out_only_gen v cur upd pods f (r + 1) n hr (by rw [hn]; simp) hdel ?_ hgood (hrev n)⟩
  rw [hn, List.erase_append_right _ hnot]
  simpa using hperm

/-- **plain scale-in by one from a converged set**: the pods are exactly those of `desired (r + 1) S`, `replicas` becomes `r`
    with the annotation untouched; the next reconcile deletes the pod at the top ordinal (`scale_in_removes_top`) and does
    nothing else — under either policy, every strategy and every fault plan -/
theorem scale_in_edit_deletes_only_top (v : SetView) (cur upd : String) (pods : List Pod) (f : Faults) (r : Int)
    (h0 : 0 ≤ r) (hr : v.replicas = some r) (hdel : v.deleting = false)
    (hperm : (pods.map Pod.ord).Perm (desired (r + 1) v.slots))
    (hgood : ∀ p ∈ pods, p.healthy = true ∧ p.rev = upd ∧ p.idOk = true ∧ p.stOk = true) :
    ∃ n, desired (r + 1) v.slots = desired r v.slots ++ [n] ∧ ∃ pk ∈ pods, pk.ord = n ∧
      (updateStatefulSet v cur upd pods f).1.acts = [.delete n pk.id .scaleDown] ∧
      (f.hit 1 n = false → (updateStatefulSet v cur upd pods f).2 = .ok) := by
  obtain ⟨n, hn, hn0, -, hlt⟩ := desired_succ r v.slots h0
  have hnot : n ∉ desired r v.slots := fun h => by have := hlt n h; omega
  refine ⟨n, hn, slot_k_only_core v cur upd pods f r n hr hnot (isCondemned_of_not_desired hn0 hnot) hdel ?_ hgood⟩
  rw [hn] at hperm
  exact hperm.trans (List.perm_append_comm.trans (by simp))

/-! non-vacuity: replicas 3, slots [] after the user un-listed 1 (before: replicas 2, slots [1], pods 0 and 2) -/
private def exV : SetView :=
  { replicas := some (2 + 1), slots := [1].filter (fun s => decide (s ≠ 1)), parallel := false, strat := .rolling,
    ru := some (some 0), deleting := false, generation := 2, stCurrentReplicas := 2 }
private def exPods : List Pod := [
  { id := 0, ord := 2, phase := .running, ready := true, terminating := false, rev := "b", idOk := true, stOk := true },
  { id := 1, ord := 0, phase := .running, ready := true, terminating := false, rev := "b", idOk := true, stOk := true }]
example : (1 : Int) ∈ [1] ∧ (1 : Int) ∈ desired (2 + 1) exV.slots ∧ (exPods.map Pod.ord).Perm (desired 2 [1]) ∧
    (∀ p ∈ exPods, p.healthy = true ∧ p.rev = "b" ∧ p.idOk = true ∧ p.stOk = true) ∧ newPodRev exV "a" "b" 1 = "b" := by decide
example : (updateStatefulSet exV "a" "b" exPods []).1.acts = [.create 1 "b"] := by decide

end Asts.Edits
