import Asts.Proofs.Patch
import Asts.Proofs.JsonToks
import Asts.Proofs.PatchBytes
/-! # C18 — "the revision data the Advanced controller computes for a set converted from a built-in StatefulSet is byte-identical to the data the
built-in controller records for it …"

**The reduction.** Both controllers run the same `getPatch` text on the JSON their codec writes (`Model/Patch.getPatchBytes`: unmarshal, keep
`spec.template`, add the directive, marshal). The theorems below say: IF the Advanced codec and the built-in codec encode the set to trees with equal
`spec.template` subtree THEN the data bytes, every hash (any collision count) and the revision name are equal. The PREMISE — "one Go type
(`corev1.PodTemplateSpec`) under one JSON encoder gives one tree, whichever scheme wraps it" — is **sampled, not proved**: the `patch` engine compares, on
every generated template, the bytes of the real `getPatch(FromBuiltinStatefulSet(set))` with a re-implementation of upstream's `getPatch` on client-go's
`apps/v1` scheme (`same=1`), and the model's prediction from the Advanced encoding with both.

The migration-flow half (revisions carrying the upgrade marker are found, label-synced, adopted and reused; no new revision, no pod deleted) lives at
L2/L4: engines `sync` / `world`, theorems of C10, C11, C13 and C03 / C07. -/
namespace Asts.C18
open Asts.Patch

/-- equal `spec.template` subtrees of the two encodings ⇒ equal revision data (as trees) -/
theorem equal_template_equal_patch (adv builtin : Json) (h : template? adv = template? builtin) : getPatch adv = getPatch builtin :=
  getPatch_congr adv builtin h

/-- … ⇒ equal revision data as BYTES, from the codecs' bytes, for whatever string escaping the (shared) marshaller uses -/
theorem equal_template_equal_bytes (esc : List Char → List Char) (encAdv encBuiltin : List Char) (a b : Json)
    (ha : parse encAdv = some a) (hb : parse encBuiltin = some b) (h : template? (canon a) = template? (canon b)) :
    getPatchBytes esc encAdv = getPatchBytes esc encBuiltin :=
  getPatchBytes_congr esc encAdv encBuiltin a b ha hb h

/-- the same on trees: whatever member order the two codecs write (`ser` of ANY trees `a`, `b`), equal `spec.template` after unmarshalling ⇒
    equal data bytes; uses `parse (ser t) = some t`, proved for every tree -/
theorem equal_template_equal_bytes_of_trees (a b : Json) (h : template? (canon a) = template? (canon b)) :
    getPatchBytes goEscape (ser goEscape a) = getPatchBytes goEscape (ser goEscape b) := by
  rw [getPatchBytes_ser, getPatchBytes_ser, getPatch_congr _ _ h]

/-- equal bytes ⇒ equal hash for every collision count (`hashControllerRevision` reads the data bytes and the probe only) … -/
theorem equal_bytes_equal_hash (d₁ d₂ : List Nat) (probe : Option Int) (h : d₁ = d₂) : hashRevision d₁ probe = hashRevision d₂ probe := by rw [h]

/-- … and equal revision name for equal set names: the Advanced controller looks for exactly the name the built-in controller wrote -/
theorem equal_bytes_equal_name (name : List Char) (d₁ d₂ : List Nat) (probe : Option Int) (h : d₁ = d₂) :
    revisionName name (hashRevision d₁ probe) = revisionName name (hashRevision d₂ probe) := by rw [h]

/-- the other members of the two encodings (apiVersion `apps.pingcap.com/v1` vs `apps/v1`, fields only one of the types has, status) do not matter -/
theorem other_members_irrelevant (k : String) (v : Json) (top : Obj) (hk : k ≠ "spec") :
    getPatch (.obj (setKey k v top)) = getPatch (.obj top) :=
  getPatch_congr _ _ (template_setTop k v top hk)

theorem other_spec_members_irrelevant (k : String) (v : Json) (top spec : Obj) (hk : k ≠ "template") (hs : lookup "spec" top = some (.obj spec)) :
    getPatch (.obj (setKey "spec" (.obj (setKey k v spec)) top)) = getPatch (.obj top) :=
  getPatch_congr _ _ (template_setSpec k v top spec hk hs)

/-- non-vacuity: two encodings that differ in `apiVersion` and in a spec member only one type has, same template, same patch -/
example : getPatch (.obj [("apiVersion", .str "apps.pingcap.com/v1"), ("spec", .obj [("template", .obj [("spec", .obj [("containers", .null)])])])])
    = getPatch (.obj [("apiVersion", .str "apps/v1"), ("spec", .obj [("minReadySeconds", .num 5), ("template", .obj [("spec", .obj [("containers", .null)])])])]) := by
  simp [getPatch, template?, lookup]

end Asts.C18
