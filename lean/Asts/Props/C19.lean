import Asts.Proofs.Annot
import Asts.Proofs.Defaults
import Asts.Proofs.Codec
import Asts.Gen.Schema

/-! # C19 — client-side helpers are lossless

Property theorems only; lemmas live in `Asts/Proofs`. Three models, each tied to the Go code by its own engine:
`Model/Annot` (annotation helpers of helper.go, engine `annot`), `Model/Codec` (the JSON conversion of hijack.go at the
schemas extracted from the Go types into `Gen/Schema`, engine `codec`) and `Model/Defaults` (client-side defaulting on the
defaulting view, engine `defaults`). -/
namespace Asts.C19
open Asts Asts.Annot

/-! ## annotation helpers -/

/-- Writing a delete-slots set and reading it back yields the same set (as the sorted duplicate-free list
    `sets.Int32.List()` returns), for every annotation map — nil, with unrelated keys, with garbage under the key — and
    every list of int32 values, duplicates and both extremes included. -/
theorem get_set_slots (m : Ann) (s : List Int) (hs : ∀ x ∈ s, JsonInts.inInt32 x = true) :
    getSlots (setSlots m (some s)) = dedupSort s :=
  getSlots_setSlots m s hs

/-- Writing an empty (or nil) set removes the annotation; a nil map stays nil. -/
theorem set_empty_removes (m : Ann) (s : Option (List Int)) (hs : s.getD [] = []) :
    lookupA slotsKey (setSlots m s) = none ∧ (setSlots m s).isNone = m.isNone :=
  setSlots_empty_erases m s hs

/-- Adding slots yields the union of what was readable before and the argument. -/
theorem add_is_union (m : Ann) (s : Option (List Int)) (hs : ∀ x ∈ s.getD [], JsonInts.inInt32 x = true) :
    getSlots (addSlots m s) = dedupSort (getSlots m ++ s.getD []) :=
  getSlots_addSlots m s hs

/-- None of the slot helpers disturbs any other annotation … -/
theorem slots_helpers_keep_others (m : Ann) (s : Option (List Int)) {k : String} (hk : k ≠ slotsKey) :
    lookupA k (setSlots m s) = lookupA k m ∧ lookupA k (addSlots m s) = lookupA k m :=
  ⟨setSlots_others m s hk, addSlots_others m s hk⟩

/-- … and neither does the pause helper; the flag reads back as written, on a nil map too. -/
theorem pause_laws (m : Ann) (b : Bool) :
    getPaused (setPaused m b) = b ∧ (∀ k, k ≠ pausedKey → lookupA k (setPaused m b) = lookupA k m) ∧
    getSlots (setPaused m b) = getSlots m :=
  ⟨getPaused_setPaused m b, fun _ hk => setPaused_others m b hk, getSlots_setPaused m b⟩

/-- The slot helpers leave the pause flag alone. -/
theorem slots_helpers_keep_pause (m : Ann) (s : Option (List Int)) :
    getPaused (setSlots m s) = getPaused m ∧ getPaused (addSlots m s) = getPaused m :=
  ⟨getPaused_setSlots m s, getPaused_addSlots m s⟩

/-- The monitor of the `annot` engine — every clause, after every operation — is true on the model's run, for every
    initial map and every sequence of helper calls whose slot arguments are int32. -/
theorem annot_monitor_on_model (m : Ann) (ops : List Op) (h : ∀ op ∈ ops, Spec.opInt32 op = true) :
    Spec.runOk (view m) ops (run m ops) = true :=
  runOk_model m ops h

/-- non-vacuity: garbage under the key, duplicates, both int32 extremes, an unrelated key -/
example :
    getSlots (setSlots (some [("other", ['x']), (slotsKey, "not json".toList)]) (some [3, -2147483648, 3, 2147483647]))
      = [-2147483648, 3, 2147483647] := by
  rw [get_set_slots _ _ (by decide)]; decide

example : getSlots (addSlots (setSlots none (some [5, 1])) (some [1, 9])) = [1, 5, 9] := by
  rw [add_is_union _ _ (by decide), get_set_slots _ _ (by decide)]; decide

example : Spec.opInt32 (.set (some [3, -2147483648, 2147483647])) = true ∧ Spec.opInt32 (.add none) = true := by decide

/-! ## client-side defaulting -/

/-- Defaulting applied twice equals applying it once, for every defaulting view (arbitrary nil / non-nil optional
    fields, arbitrary strings and numbers, any number of volumes, containers, ports, probes, claims). -/
theorem defaults_idempotent (v : Defaults.View) : Defaults.defaults (Defaults.defaults v) = Defaults.defaults v :=
  Defaults.defaults_idem v

/-- Hence re-submitting an object that was read back (it went through one pass when it was written) never alters its
    pod template, and therefore never starts a rollout. -/
theorem resubmit_keeps_template (v : Defaults.View) :
    (Defaults.defaults (Defaults.defaults v)).templatePart = (Defaults.defaults v).templatePart :=
  Defaults.template_fixed v

/-- The monitor of the `defaults` engine is true on the model's observation of every view. -/
theorem defaults_monitor_on_model (v : Defaults.View) :
    ∀ c ∈ Defaults.Spec.clauses (Defaults.Spec.observe v), c.2 = true :=
  Defaults.clauses_model v

/-- Quantity rounding is rounding: a multiple of 10^-3, never smaller in magnitude, less than one step away. -/
theorem rounding_is_rounding (n : Int) :
    Defaults.roundUpMilli n % 1000000 = 0 ∧ (0 ≤ n → n ≤ Defaults.roundUpMilli n ∧ Defaults.roundUpMilli n < n + 1000000) ∧
    (n < 0 → Defaults.roundUpMilli n ≤ n ∧ n - 1000000 < Defaults.roundUpMilli n) :=
  Defaults.roundUpMilli_spec n

/-- The model's rule table names exactly the defaulting functions reachable from `SetObjectDefaults_StatefulSet` in the
    current tree (`Gen.defaulters` is regenerated on every check). -/
theorem rule_table_matches_generated :
    (Gen.defaulters.all (fun d => Defaults.ruleNames.contains d) && Defaults.ruleNames.all (fun d => Gen.defaulters.contains d)) = true :=
  Defaults.ruleTable_covers_generated

/-- One pass of defaulting — what a write through the hijack client adds to the conversion — keeps every value that was
    set: non-empty strings, non-zero numbers, non-nil pointers stay as they were, lists keep length and order, quantities
    are at most rounded up to the next 10^-3. (Model of the intended strategy rule; see the known finding.) -/
theorem defaults_keep_set_values (v : Defaults.View) : Defaults.Spec.keptView v (Defaults.defaults v) = true :=
  Defaults.keptView_defaults v

/-- The strategy rule of the tree at the time of writing (defaulting the type *replaces* the rollingUpdate block) does not:
    no type, a block with partition 3 — the partition is lost. Known finding of the `codec` engine
    (`C19.hijack-set-fields-kept`), fix in `proposed-fixes/C19-strategy-block.diff`. -/
theorem replacing_strategy_rule_loses_partition :
    Defaults.Spec.keptO (Defaults.Spec.keptO Defaults.Spec.sameI) (some (some 3)) (Defaults.dStrategyReplacing "" (some (some 3))).2 = false :=
  Defaults.replacing_strategy_loses

/-- non-vacuity of the strategy rule in its shapes -/
example : Defaults.dStrategy "" (some (some 3)) = ("RollingUpdate", some (some 3)) ∧
    Defaults.dStrategy "" none = ("RollingUpdate", some (some 0)) ∧
    Defaults.dStrategy "RollingUpdate" (some none) = ("RollingUpdate", some (some 0)) ∧
    Defaults.dStrategy "OnDelete" none = ("OnDelete", none) ∧
    Defaults.dStrategyReplacing "" (some (some 3)) = ("RollingUpdate", some (some 0)) := by decide

/-! ## conversion between the built-in and the Advanced type

`Gen.asSchema`, `Gen.builtinSchema` (and the two list schemas) are regenerated from the Go types on every check; the four
facts below are evaluated on them, so a field added to the Advanced type with a different key / omitempty flag / shape
than its built-in counterpart, or one the built-in type does not have, breaks an obligation. -/

/-- every field of the Advanced type occurs in the built-in type with the same JSON key, omitempty flag and shape -/
theorem as_within_builtin : Codec.compat Gen.asSchema Gen.builtinSchema = true ∧
    Codec.compat Gen.asListSchema Gen.builtinListSchema = true := by decide

/-- both pairs of schemas are well formed (distinct keys per struct, pointers at non-null types, nothing outside the model) -/
theorem schemas_wf : Codec.wf Gen.asSchema = true ∧ Codec.wf Gen.builtinSchema = true ∧
    Codec.wf Gen.asListSchema = true ∧ Codec.wf Gen.builtinListSchema = true ∧
    Codec.compat Gen.asSchema Gen.asSchema = true ∧ Codec.compat Gen.asListSchema Gen.asListSchema = true := by decide

/-- each side's decoder accepts what the other side's encoder writes -/
theorem schemas_accept_each_other :
    Codec.accCompat Gen.asSchema Gen.builtinSchema = true ∧ Codec.accCompat Gen.builtinSchema Gen.asSchema = true ∧
    Codec.accCompat Gen.builtinListSchema Gen.asListSchema = true := by decide

/-- `FromBuiltinStatefulSet`: the Advanced object equals the built-in one in every field the Advanced API models
    (nil and empty collections identified, slices position by position). -/
theorem from_builtin_keeps (w : Codec.GoVal) (h : Codec.HasTy Gen.builtinSchema w) :
    Codec.Equiv Gen.asSchema (Codec.decode Gen.asSchema (Codec.encode Gen.builtinSchema w)) w :=
  Codec.roundtrip _ _ _ w schemas_wf.2.1 as_within_builtin.1 schemas_wf.2.2.2.2.1 h

/-- `ToBuiltinStatefulSet`: nothing of an Advanced object is lost in the built-in one. -/
theorem to_builtin_keeps (a : Codec.GoVal) (h : Codec.HasTy Gen.asSchema a) :
    Codec.Equiv Gen.asSchema (Codec.decode Gen.builtinSchema (Codec.encode Gen.asSchema a)) a :=
  Codec.roundtrip _ _ _ a schemas_wf.1 schemas_wf.2.2.2.2.1 as_within_builtin.1 h

/-- A built-in StatefulSet converted to the Advanced type and back (what a write through the hijack client followed by a
    read does to it, defaulting aside) is unchanged in every field the Advanced API models. -/
theorem builtin_there_and_back (w : Codec.GoVal) (h : Codec.HasTy Gen.builtinSchema w) :
    Codec.Equiv Gen.asSchema
      (Codec.decode Gen.builtinSchema (Codec.encode Gen.asSchema (Codec.decode Gen.asSchema (Codec.encode Gen.builtinSchema w)))) w :=
  Codec.there_and_back _ _ w schemas_wf.1 schemas_wf.2.1 schemas_wf.2.2.2.2.1 as_within_builtin.1 h

/-- `ToBuiltinStetefulsetList`: the same for lists — in particular `items` keeps its length and order (`Equiv` on a slice
    is position by position, see `list_length_kept`). -/
theorem list_to_builtin_keeps (l : Codec.GoVal) (h : Codec.HasTy Gen.asListSchema l) :
    Codec.Equiv Gen.asListSchema (Codec.decode Gen.builtinListSchema (Codec.encode Gen.asListSchema l)) l :=
  Codec.roundtrip _ _ _ l schemas_wf.2.2.1 schemas_wf.2.2.2.2.2 as_within_builtin.2 h

/-- equivalent slices have the same length -/
theorem list_length_kept (t : Codec.GoTy) (l1 l2 : List Codec.GoVal) (h : Codec.EquivList t l1 l2) : l1.length = l2.length :=
  Codec.equivList_length l1 l2 h

/-- Converting in either direction never fails: the decoder of each side accepts the other side's encoding of any
    well-typed value (integers within their width included). -/
theorem conversion_never_fails :
    (∀ w, Codec.HasTy Gen.builtinSchema w → Codec.accepts Gen.asSchema (Codec.encode Gen.builtinSchema w) = true) ∧
    (∀ a, Codec.HasTy Gen.asSchema a → Codec.accepts Gen.builtinSchema (Codec.encode Gen.asSchema a) = true) ∧
    (∀ l, Codec.HasTy Gen.asListSchema l → Codec.accepts Gen.builtinListSchema (Codec.encode Gen.asListSchema l) = true) :=
  ⟨fun w h => Codec.accepts_encode _ _ w schemas_wf.2.1 schemas_accept_each_other.1 h,
   fun a h => Codec.accepts_encode _ _ a schemas_wf.1 schemas_accept_each_other.2.1 h,
   fun l h => Codec.accepts_encode _ _ l schemas_wf.2.2.1 schemas_accept_each_other.2.2 h⟩

/-- What comes back is typed as asked (`apps/v1` from `ToBuiltinStatefulSet`, `apps.pingcap.com/v1` from
    `FromBuiltinStatefulSet`), and the stamp touches no other top-level field. -/
theorem converted_is_typed (src : Codec.GoTy) (av : String) (v : Codec.GoVal) :
    (∀ fs, Gen.builtinSchema = .struct fs → Codec.topField "apiVersion" (Codec.convert src (.struct fs) av v) = some (.str av)) ∧
    (∀ fs, Gen.asSchema = .struct fs → Codec.topField "apiVersion" (Codec.convert src (.struct fs) av v) = some (.str av)) ∧
    (∀ fs k, k ≠ "apiVersion" →
      Codec.topField k (Codec.convert src (.struct fs) av v) = Codec.topField k (Codec.decode (.struct fs) (Codec.encode src v))) := by
  refine ⟨?_, ?_, fun fs k hk => Codec.convert_other_fields src fs av v hk⟩
  · intro fs hfs
    have hf : Codec.findField "apiVersion" fs = some (true, .prim .str) := by
      simp only [Gen.builtinSchema, Codec.GoTy.struct.injEq] at hfs; subst hfs; rfl
    exact Codec.convert_typed src fs av v hf
  · intro fs hfs
    have hf : Codec.findField "apiVersion" fs = some (true, .prim .str) := by
      simp only [Gen.asSchema, Codec.GoTy.struct.injEq] at hfs; subst hfs; rfl
    exact Codec.convert_typed src fs av v hf

/-- non-vacuity: a built-in value with a nil `volumeClaimTemplates`, an empty `conditions`, a partition without a strategy
    type and the built-in-only `minReadySeconds` / `availableReplicas` -/
def exampleBuiltin : Codec.GoVal := .struct [
  ("kind", .str "StatefulSet"), ("apiVersion", .str "apps/v1"), ("metadata", .leaf (.obj [("name", .str "web")])),
  ("spec", .struct [("replicas", .ptr (.int 3)), ("selector", .nilPtr), ("template", .leaf (.obj [])),
    ("volumeClaimTemplates", .slice none), ("serviceName", .str "web"), ("podManagementPolicy", .str ""),
    ("updateStrategy", .struct [("type", .str ""), ("rollingUpdate", .ptr (.struct [("partition", .ptr (.int 2)), ("maxUnavailable", .nilPtr)]))]),
    ("revisionHistoryLimit", .nilPtr), ("minReadySeconds", .int 5), ("persistentVolumeClaimRetentionPolicy", .nilPtr), ("ordinals", .nilPtr)]),
  ("status", .struct [("observedGeneration", .int 0), ("replicas", .int 0), ("readyReplicas", .int 0), ("currentReplicas", .int 0),
    ("updatedReplicas", .int 0), ("currentRevision", .str ""), ("updateRevision", .str ""), ("collisionCount", .nilPtr),
    ("conditions", .slice (some [])), ("availableReplicas", .int 1)])]

/-- it is well typed, so the hypotheses of the conversion theorems are satisfiable … -/
example : Codec.HasTy Gen.builtinSchema exampleBuiltin := by
  simp [Gen.builtinSchema, exampleBuiltin, Codec.HasTy, Codec.HasTyFields, Codec.HasTyList, Codec.vlookup]

/-- … and its partition survives the conversion to the Advanced type -/
example : Json.intD ((Codec.encode Gen.asSchema (Codec.decode Gen.asSchema (Codec.encode Gen.builtinSchema exampleBuiltin))).path?
    ["spec", "updateStrategy", "rollingUpdate", "partition"]) = 2 := by
  simp [Gen.builtinSchema, Gen.asSchema, exampleBuiltin, Codec.encode, Codec.encodeFields, Codec.decode, Codec.decodeFields,
    Codec.vlookup, Codec.jlookup, Codec.isEmpty, Json.path?, Json.field?, Json.intD, Codec.zero]

end Asts.C19
