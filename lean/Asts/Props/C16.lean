import Asts.Proofs.Events

/-! # C16 — no lost wake-ups: every relevant event gets the right set reconciled

Property theorems only; the lemmas live in `Asts/Proofs/Events.lean`. `handle L sets ev` is the model (`Model/Events`) of the
informer handlers of `pkg/controller/statefulset/stateful_set.go` with the lister expansion `L` — `.fixed` is the intended
one (a set whose selector does not convert is skipped), `.pinned` the one on the pinned tree (it makes the whole lookup
fail); `run` is the model of `processNextWorkItem` over the work queue. `Spec.*` are the predicates the monitors evaluate
on the real code's observations (`Spec/Events`). All statements hold for every cache (any number of sets), every pod,
every event and every worker script; `cacheOk` says the cache has at most one set per namespace/name (the informer's
indexer is keyed by it), `eventOk` that the two sides of an update are in the same namespace. -/
namespace Asts.C16
open Asts.Events Asts.Events.Spec

/-- **The table**: the keys the handlers put in the queue are, as a set, exactly the expected ones
    (the monitor `C16.exact` is true on the model for every input). -/
theorem table (sets : List SetObj) (ev : Event) (hc : cacheOk sets = true) (hev : eventOk ev = true) :
    exact sets ev (handle .fixed sets ev) = true :=
  handle_exact sets ev hc hev

/-- monitor `C16.owner` on the model: a pod event whose pod is controlled by a cached set wakes that set -/
theorem owner_woken (sets : List SetObj) (ev : Event) (hc : cacheOk sets = true) (hev : eventOk ev = true) :
    ownerWoken sets ev (handle .fixed sets ev) = true :=
  ownerWoken_of_exact sets ev _ (handle_exact sets ev hc hev)

/-- monitor `C16.oldowner` on the model: when the controlling owner changed the old one is woken too -/
theorem old_owner_woken (sets : List SetObj) (ev : Event) (hc : cacheOk sets = true) (hev : eventOk ev = true) :
    oldOwnerWoken sets ev (handle .fixed sets ev) = true :=
  oldOwnerWoken_of_exact sets ev _ (handle_exact sets ev hc hev)

/-- monitor `C16.orphan` on the model: an unowned pod appearing or changing wakes every set that selects it -/
theorem orphan_woken (sets : List SetObj) (ev : Event) (hc : cacheOk sets = true) (hev : eventOk ev = true) :
    orphanWoken sets ev (handle .fixed sets ev) = true :=
  orphanWoken_of_exact sets ev _ (handle_exact sets ev hc hev)

/-- monitor `C16.set` on the model: any change to a set wakes it -/
theorem set_woken (sets : List SetObj) (ev : Event) (hc : cacheOk sets = true) (hev : eventOk ev = true) :
    setWoken ev (handle .fixed sets ev) = true :=
  setWoken_of_exact sets ev _ (handle_exact sets ev hc hev)

/-- monitor `C16.quiet` on the model: nothing else is woken -/
theorem nothing_else (sets : List SetObj) (ev : Event) (hc : cacheOk sets = true) (hev : eventOk ev = true) :
    nothingElse sets ev (handle .fixed sets ev) = true :=
  nothingElse_of_exact sets ev _ (handle_exact sets ev hc hev)

/-- the five monitor clauses say exactly what the table says, for any observed key set: none is vacuous and together
    they leave nothing out (which is why the engine reports the clauses and not `exact` separately) -/
theorem clauses_iff_table (sets : List SetObj) (ev : Event) (keys : List Key) :
    exact sets ev keys = true ↔
      (ownerWoken sets ev keys = true ∧ oldOwnerWoken sets ev keys = true ∧ orphanWoken sets ev keys = true ∧
       setWoken ev keys = true ∧ nothingElse sets ev keys = true) :=
  ⟨fun h => ⟨ownerWoken_of_exact sets ev keys h, oldOwnerWoken_of_exact sets ev keys h, orphanWoken_of_exact sets ev keys h,
      setWoken_of_exact sets ev keys h, nothingElse_of_exact sets ev keys h⟩,
   fun ⟨h1, h2, h3, h4, h5⟩ => exact_of_clauses sets ev keys h1 h2 h3 h4 h5⟩

/-! ## the rows, one by one (about the handlers directly; `L` arbitrary = also true of the pinned tree) -/

/-- creation (also of an already terminating pod), deletion, and deletion learned through a tombstone, of a pod whose
    controlling owner designates a cached set (kind, name, uid): exactly that set -/
theorem owned_pod_add_delete_tombstone (L : Lister) (sets : List SetObj) (p : Pod) (k : Key) (hc : cacheOk sets = true)
    (hk : ownerKey sets p = some k) :
    handle L sets (.add p) = [k] ∧ handle L sets (.delete p) = [k] ∧ handle L sets (.tombstone p) = [k] :=
  row_owned L sets p k hc hk

/-- update of an owned pod whose owner did not change: exactly the owner -/
theorem owned_pod_update (L : Lister) (sets : List SetObj) (old cur : Pod) (k : Key) (hc : cacheOk sets = true)
    (hns : old.ns = cur.ns) (hrv : old.rv ≠ cur.rv) (hid : ownerId old = ownerId cur) (hk : ownerKey sets cur = some k) :
    ∀ k', k' ∈ handle L sets (.update old cur) ↔ k' = k :=
  row_update_owned L sets old cur k hc hns hrv hid hk

/-- the controlling owner changed: the old and the new owner, both -/
theorem owner_change_wakes_both (L : Lister) (sets : List SetObj) (old cur : Pod) (k₁ k₂ : Key) (hc : cacheOk sets = true)
    (hrv : old.rv ≠ cur.rv) (hid : ownerId old ≠ ownerId cur)
    (hk₁ : ownerKey sets old = some k₁) (hk₂ : ownerKey sets cur = some k₂) :
    handle L sets (.update old cur) = [k₁, k₂] :=
  row_owner_change L sets old cur k₁ k₂ hc hrv hid hk₁ hk₂

/-- an update between equal resource versions: nothing -/
theorem resync_wakes_nothing (L : Lister) (sets : List SetObj) (old cur : Pod) (hrv : old.rv = cur.rv) :
    handle L sets (.update old cur) = [] :=
  row_same_rv L sets old cur hrv

/-- an unowned pod appears: every cached set that selects it (whatever else is in the cache) -/
theorem orphan_add_wakes_matching (sets : List SetObj) (p : Pod) (ht : p.terminating = false) (ho : ctrlRef p = none) :
    handle .fixed sets (.add p) = matching sets p :=
  row_orphan_add sets p ht ho

/-- an unowned pod whose labels changed: every set that selects it now -/
theorem orphan_update_labels (sets : List SetObj) (old cur : Pod) (hrv : old.rv ≠ cur.rv)
    (ho : ctrlRef old = none) (hcu : ctrlRef cur = none) (hl : labelsOf old ≠ labelsOf cur) :
    handle .fixed sets (.update old cur) = matching sets cur :=
  row_orphan_update_labels sets old cur hrv ho hcu hl

/-- a pod that lost its owner: the old owner (if it is a cached set) and every set that selects it -/
theorem orphan_update_released (sets : List SetObj) (old cur : Pod) (hc : cacheOk sets = true) (hrv : old.rv ≠ cur.rv)
    (hcu : ctrlRef cur = none) (hid : ownerId old ≠ ownerId cur) :
    handle .fixed sets (.update old cur) = (ownerKey sets old).toList ++ matching sets cur :=
  row_orphan_update_released sets old cur hc hrv hcu hid

/-- an unowned pod updated with neither labels nor owner changed: nothing -/
theorem orphan_update_unchanged (sets : List SetObj) (old cur : Pod)
    (ho : ctrlRef old = none) (hcu : ctrlRef cur = none) (hl : labelsOf old = labelsOf cur) :
    handle .fixed sets (.update old cur) = [] :=
  row_orphan_update_unchanged sets old cur ho hcu hl

/-- an owner that designates no cached set: nothing, for add, delete and tombstone -/
theorem unresolvable_owner (L : Lister) (sets : List SetObj) (p : Pod) (r : OwnerRef) (hc : cacheOk sets = true)
    (hr : ctrlRef p = some r) (hd : designates sets p.ns r = none) :
    handle L sets (.add p) = [] ∧ handle L sets (.delete p) = [] ∧ handle L sets (.tombstone p) = [] :=
  row_unresolvable L sets p r hc hr hd

/-- an owner of another kind designates nothing -/
theorem other_kind_designates_nothing (sets : List SetObj) (ns : String) (r : OwnerRef) (h : r.kind ≠ "StatefulSet") :
    designates sets ns r = none :=
  designates_none_of_kind sets ns r h

/-- a stale uid (or an unknown name) designates nothing -/
theorem stale_uid_designates_nothing (sets : List SetObj) (ns : String) (r : OwnerRef)
    (h : ∀ s ∈ sets, s.ns = ns → s.name = r.name → s.uid ≠ r.uid) : designates sets ns r = none :=
  designates_none_of_stale sets ns r h

/-- an unowned pod going away (delete, tombstone, or an add that is already terminating): nothing -/
theorem orphan_delete_wakes_nothing (L : Lister) (sets : List SetObj) (p : Pod) (ho : ctrlRef p = none) :
    handle L sets (.delete p) = [] ∧ handle L sets (.tombstone p) = [] ∧
    (p.terminating = true → handle L sets (.add p) = []) :=
  row_orphan_gone L sets p ho

/-- a delete event that carries no pod: nothing -/
theorem not_a_pod_wakes_nothing (L : Lister) (sets : List SetObj) :
    handle L sets .tombstoneOther = [] ∧ handle L sets .deleteOther = [] :=
  row_not_a_pod L sets

/-- any change to a set (add, update, delete, delete learned through a tombstone): exactly that set -/
theorem set_event_wakes_the_set (L : Lister) (sets : List SetObj) (k : Key) :
    handle L sets (.setAdd k) = [k] ∧ handle L sets (.setUpdate k) = [k] ∧ handle L sets (.setDelete k) = [k] ∧
    handle L sets (.setTombstone k) = [k] :=
  row_set_event L sets k

/-- a pod unrelated to any set (no owner, selected by no set): nothing, whatever happens to it -/
theorem unrelated_pod_wakes_nothing (sets : List SetObj) (p : Pod) (ho : ctrlRef p = none) (hm : matching sets p = []) :
    handle .fixed sets (.add p) = [] ∧ handle .fixed sets (.delete p) = [] ∧ handle .fixed sets (.tombstone p) = [] ∧
    ∀ old, ctrlRef old = none → handle .fixed sets (.update old p) = [] :=
  row_unrelated sets p ho hm

/-! ## the worker -/

/-- monitor `C16.worker` on the model, for every assignment of shapes to keys and every script of events and reconcile
    results: a failed reconcile is put back through `AddRateLimited` with its requeue count one higher, a successful one
    is forgotten (count 0) and not put back -/
theorem worker_monitor (shapeOf : Key → Shape) (ops : List Op) :
    workerOk shapeOf (fun _ => 0) ops (run shapeOf WState.init ops).2 = true :=
  run_workerOk shapeOf ops WState.init

/-- after any script, the requeue count of a key is the length of the trailing run of failures among its reconciles -/
theorem requeues_eq_trailing_failures (shapeOf : Key → Shape) (k : Key) (ops : List Op) :
    (run shapeOf WState.init ops).1.fails k = trailingFailures (reconciled shapeOf k WState.init ops) := by
  rw [run_fails, ← foldl_cnt_eq_trailing]; rfl

/-! ## the lister on the pinned tree -/

/-- On the pinned tree the table is false: two sets select an orphan pod, a third set of the namespace has a selector
    that does not convert, and the add wakes nobody (`C16.orphan` is false on the pinned model at this witness). -/
theorem pinned_lister_loses_wakeups :
    cacheOk witnessSets = true ∧ eventOk (.add witnessPod) = true ∧
    matching witnessSets witnessPod = [("n1", "a"), ("n1", "b")] ∧
    handle .pinned witnessSets (.add witnessPod) = [] ∧
    orphanWoken witnessSets (.add witnessPod) (handle .pinned witnessSets (.add witnessPod)) = false := by
  decide

/-- non-vacuity: the same witness under the intended lister wakes both sets, and a worker script with two failures,
    a success and a failure leaves the count at 1 -/
example : handle .fixed witnessSets (.add witnessPod) = [("n1", "a"), ("n1", "b")] ∧
    orphanWoken witnessSets (.add witnessPod) (handle .fixed witnessSets (.add witnessPod)) = true := by decide

example : (run (fun _ => .normal) WState.init
    [.event ("n1", "a"), .process .updateErr, .process .listRevErr, .process .ok, .event ("n1", "a"), .process .updateErr]).1.fails ("n1", "a") = 1 := by
  decide

end Asts.C16
