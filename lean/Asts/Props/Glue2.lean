import Asts.Props.Glue
import Asts.Proofs.GL2_Rc
import Asts.Proofs.GL2_Store
import Asts.Proofs.GL2_Removed
import Asts.Proofs.GL2_C12
import Asts.Proofs.GL2_Stable

/-! # Glue2 — the monitor clauses that lived only in the drivers, as theorems about the model

`monitorRc` (`Driver/Reconcile.lean`) and `monitorSync` (`Driver/Sync.lean`) evaluate, next to the predicates of
`Spec/Reconcile.lean` and `Spec/Sync.lean`, a few clauses that used to be anonymous Boolean expressions inside the driver.
They are now named definitions in `Spec/Glue2.lean` (`C04removedRc`, `C04removedSync`, `C11revowner`, `C18adopted`,
`C12completionSync`); the drivers call these definitions on the observation of the REAL code, and the theorems below say
that the very same Boolean is `true` on the observation of the MODEL (`updateStatefulSet …`, `(syncF h i plan).observe`)
for every input. Lemmas: `Asts/Proofs/GL2_*.lean`.

| clause | theorem | hypotheses |
|---|---|---|
| `C04.removed` (reconcile) | `C04_removed_reconcile` | none |
| `C04.removed` (sync) | `C04_removed_sync` | pod names unique, pod ids unique |
| `C11.revowner` | `C11_revowner` | revision names unique |
| `C18.adopted` | `C18_adopted` | revision names unique |
| `C12.completion` (sync) | `C12_completion_sync` | none |
| `C18.stable` (world) | `C18_stable` | revision names unique (or: every revision on the first probed name records the template) |

Hypotheses, and why each is there:
* `(i.pods.map (·.name)).Nodup` — pod names are unique in the pod cache (one namespace of the API). `podFaults` finds the
  ordinal a faulted `delete:pod:<name>` call is about by looking the name up in the cache, and `annotate` counts
  occurrences of the entry string; with two cached pods of one name both go wrong (`exDupPods` below: the clause is false).
* `(i.pods.map (·.pod.id)).Nodup` — pod ids (the driver numbers pods by position: `C04_removed_sync_positions`) are
  distinct; a recorded delete names its pod by id.
* `SYa.StoreNamesOk i` — revision names are unique in the store; both revision clauses look input revisions up BY NAME in the
  final store and are false on an untouched store holding two revisions of one name (`exDupRevs`, `exDupRevs18`).

`C09.retrysame` ("every attempt of a retried status write carries the same status") has no model-level statement: the
model's `statusWriteF` logs one `updatestatus` entry per attempt but does not take the status as an argument at all — the
status is computed once, before the retry loop, and `SyncOut.status` holds that one value; attempts carry no payload that
could differ. The clause stays a check of the real code only (`stvar` of the harness observation). -/
namespace Asts.Glue2
open Asts Asts.GL Asts.GL2

/-! ## (a) `C04.removed` -/

/-- **a refused pod-control call ends the reconcile**: in the action list of `updateStatefulSet` nothing stands after an
    action the fault list refuses (`SYc.hitAct`: a create / delete / update whose (verb, ordinal) is in the list) -/
theorem refused_call_is_last (v : SetView) (cur upd : String) (pods : List Pod) (f : Faults) {pre post : List Action}
    {a : Action} (h : (updateStatefulSet v cur upd pods f).1.acts = pre ++ a :: post) (hh : SYc.hitAct f a = true) :
    post = [] :=
  hit_is_last v cur upd pods f h hh

/-- **`C04.removed`, reconcile level**: the clause of `monitorRc` is true on the model's output — no create at an ordinal
    whose delete earlier in the same reconcile was refused — for every spec, snapshot and fault list. No hypothesis. -/
theorem C04_removed_reconcile (v : SetView) (cur upd : String) (pods : List Pod) (f : Faults) :
    C04removedRc f (observe (updateStatefulSet v cur upd pods f).1.acts) = true :=
  C04removedRc_holds v cur upd pods f

/-- what stands before a create in a reconcile: every delete before it names a pod of the snapshot (by id) at the delete's
    own ordinal, and these deletes have pairwise distinct ordinals -/
theorem deletes_before_a_create (v : SetView) (cur upd : String) (pods : List Pod) (f : Faults) {X Y : List Action}
    {o : Int} {r : String} (h : (updateStatefulSet v cur upd pods f).1.acts = X ++ .create o r :: Y) :
    (∀ a ∈ X, DelOK pods a) ∧ (delOrds X).Nodup :=
  before_create v cur upd pods f h

/-- the call log of a sync by position: entries of the stages before the reconcile, the pod-control calls of the recorded
    actions in order, entries of the status write and the truncation; only the middle part holds pod creates / deletes -/
theorem sync_log_by_position (h : Hashing) (i : SyncIn) (plan : List Fault) :
    ∃ P Q, (syncF h i plan).log =
        P ++ ((syncF h i plan).acts.map (actLog i.setName plan i.pods (syncF h i plan).claimed (SYa.rangeOf i).1
          (SYa.rangeOf i).2)).flatten ++ Q ∧
      (∀ e ∈ P, NoPodCD e) ∧ (∀ e ∈ Q, NoPodCD e) :=
  sync_log_decomp h i plan

/-- `Prop` reading, stronger than the clause (the two names need not agree): a `delete:pod:` entry of the log of a sync that
    is followed, anywhere later, by a `create:pod:` entry was hit by no injected fault -/
theorem no_create_after_refused_delete (h : Hashing) (i : SyncIn) (plan : List Fault)
    (hnames : (i.pods.map (·.name)).Nodup) (hids : (i.pods.map (·.pod.id)).Nodup)
    {a' c bb : List String} {sg se : String}
    (hlog : (syncF h i plan).log = a' ++ sg :: (c ++ se :: bb))
    (hg : (parseEntry sg).verb = "delete" ∧ (parseEntry sg).res = "pod")
    (he : (parseEntry se).verb = "create" ∧ (parseEntry se).res = "pod") :
    SYb.look plan sg (SYb.cnt sg a') = none :=
  no_create_after_faulted_delete h i plan hnames hids hlog hg he

/-- **`C04.removed`, sync level**: the clause of `monitorSync` is true on the model's log for every hashing, world and fault
    plan in which pod names and pod ids are unique. -/
theorem C04_removed_sync (h : Hashing) (i : SyncIn) (plan : List Fault)
    (hnames : (i.pods.map (·.name)).Nodup) (hids : (i.pods.map (·.pod.id)).Nodup) :
    C04removedSync plan (syncF h i plan).observe.log = true :=
  C04removedSync_holds h i plan hnames hids

/-- the same with the id hypothesis as the driver establishes it: pods numbered by position -/
theorem C04_removed_sync_positions (h : Hashing) (i : SyncIn) (plan : List Fault)
    (hnames : (i.pods.map (·.name)).Nodup)
    (hpos : ∀ (k : Nat) (c : CPod), i.pods[k]? = some c → c.pod.id = k) (hlen : i.pods.length ≤ freshId) :
    C04removedSync plan (syncF h i plan).observe.log = true := by
  have hids := (Glue.world_idsOk_of_positions i hpos hlen).nodup
  rw [List.map_map] at hids
  exact C04removedSync_holds h i plan hnames hids

/-! ## (b) `C11.revowner` -/

/-- **no adoption without confirmation**: when the cached set is being deleted, or the uncached read of the set finds it
    gone, re-created (other uid) or carrying a deletion timestamp, the adoption stage leaves every stored revision with the
    name and the owner it had — for every fault plan, whether the stage ends well or not -/
theorem adoption_needs_confirmation (plan : List Fault) (del : Bool) (fresh : Fresh) (s : RevSt)
    (hno : (freshOk fresh && !del) = false) :
    ∃ f : Rev → Rev, (∀ x, (f x).name = x.name ∧ (f x).owner = x.owner) ∧
      (adoptOrphanRevisionsF plan del fresh s).1.store = s.store.map f :=
  adopt_keeps_owner plan del fresh s hno

/-- after the adoption stage no stage of a sync changes an owner: every revision of the final store of a sync that ran has
    the name and the owner of a revision the adoption stage left, or is a new own revision under a name that was free -/
theorem store_owners_after_adoption (h : Hashing) (i : SyncIn) (plan : List Fault)
    (hrun : (i.paused || !i.selectorOk) = false) :
    ∀ y ∈ (syncF h i plan).store, FromAdopted (SYb.adoptedStore plan i) y :=
  sync_store_fromAdopted h i plan hrun

/-- `Prop` reading of `C11.revowner` -/
theorem revowner_reading (h : Hashing) (i : SyncIn) (plan : List Fault) (hnd : SYa.StoreNamesOk i)
    (hno : (freshOk i.fresh && !i.view.deleting) = false) :
    ∀ r ∈ i.store, r.owner ≠ .self → ∀ y ∈ (syncF h i plan).store, y.name = r.name → y.owner ≠ .self :=
  revowner_prop h i plan hnd hno

/-- **`C11.revowner`**: the clause of `monitorSync` is true on the model: when adoption is not allowed, every revision of
    the input store that is not the set's own is not controlled by the set in the final store — every hashing, world and
    fault plan; revision names unique. -/
theorem C11_revowner (h : Hashing) (i : SyncIn) (plan : List Fault) (hnd : SYa.StoreNamesOk i) :
    C11revowner i (syncF h i plan).observe = true :=
  C11revowner_holds h i plan hnd

/-! ## (c) `C18.adopted` -/

/-- **every visible orphan is adopted by a sync that succeeds**, for EVERY fault plan and whatever the uncached read would
    say: the sync of a running set (not paused, selector valid, not being deleted in the cache) that ended `.ok` leaves every
    input revision that nobody controlled and that it can see (selector labels or upgrade marker) controlled by the set, if
    it still exists. Two guards of the monitor clause (`freshOk`, empty plan) are not needed: an adoption stage that ended
    well with an orphan in sight HAS confirmed the set. -/
theorem orphans_adopted (h : Hashing) (i : SyncIn) (plan : List Fault) (hnd : SYa.StoreNamesOk i)
    (hrun : (i.paused || !i.selectorOk) = false) (hdel : i.view.deleting = false) (hok : (syncF h i plan).outcome = .ok) :
    ∀ r ∈ i.store, r.owner = .none → (r.selMatch = true ∨ r.marker = true) →
      ∀ y ∈ (syncF h i plan).store, y.name = r.name → y.owner = .self :=
  orphans_adopted_prop h i plan hnd hrun hdel hok

/-- **`C18.adopted`**: the clause of `monitorSync` is true on the model for every hashing, world and fault plan; revision
    names unique. -/
theorem C18_adopted (h : Hashing) (i : SyncIn) (plan : List Fault) (hnd : SYa.StoreNamesOk i) :
    C18adopted i plan (syncF h i plan).observe = true :=
  C18adopted_holds h i plan hnd

/-! ## (d) `C12.completion` at sync level -/

/-- nothing created or deleted among the recorded actions of a sync ⇒ nothing created or deleted among the pod-control
    calls `monitorSync` reads back from its log (`podActs`), whatever create labels the harness recorded -/
theorem log_quiet_of_acts_quiet (h : Hashing) (i : SyncIn) (plan : List Fault) (creates : List String)
    (hq : (observe (syncF h i plan).acts).any (fun a => a.isCreate || a.isDelete) = false) :
    (podActs i (syncF h i plan).log creates).any (fun a => a.isCreate || a.isDelete) = false :=
  podActs_quiet h i plan creates hq

/-- **`C12.completion`, sync level**: the clause of `monitorSync` — the completion rule judged on the status a whole sync
    wrote and on the pod-control calls of its log — is true on the model for every hashing, world, fault plan and every list
    of recorded create labels. Composition of `C12.C12_completion` (reconcile level) with `Glue.sync_C12_completion`
    (reconcile inside sync) and the log bridge above. No hypothesis. -/
theorem C12_completion_sync (h : Hashing) (i : SyncIn) (plan : List Fault) (creates : List String) :
    C12completionSync i (syncF h i plan) (syncF h i plan).observe creates = true :=
  C12completionSync_of_observed h i plan creates (fun st hst => Glue.sync_C12_completion h i plan st hst)

/-! ## (f) `C18.stable` — rounds add no second revision recording the template -/

/-- **one sync, when every revision on the first probed name records the template** (`ProbeOk`): every revision of the final
    store is a revision of the input store (same name, same data) or records the template on that very name; a status the
    sync writes carries the collision count it started from. Every hashing, world and fault plan. -/
theorem one_sync_probe (h : Hashing) (i : SyncIn) (plan : List Fault)
    (hP : ProbeOk (h.nameOf i.template (i.collisionCount.getD 0)) i.template i.store) :
    (∀ y ∈ (syncF h i plan).store, FromOrProbe (h.nameOf i.template (i.collisionCount.getD 0)) i.template i.store y) ∧
    ((syncF h i plan).status.isSome = true → (syncF h i plan).cc = some (i.collisionCount.getD 0)) :=
  sync_probe h i plan hP

/-- **the invariant of rounds** (`StableInv`): the template and the collision count the next sync starts from are as at the
    start, every revision on the first probed name records the template, every revision recording the template bears a name
    of `N0` — kept by every round, whatever its fault plan, as soon as the first probed name is one of `N0` -/
theorem round_keeps_stable {h : Hashing} {T : String} {cc0 : Int} {N0 : List String} {W : SyncIn}
    (hN : h.nameOf T cc0 ∈ N0) (inv : StableInv h T cc0 N0 W) (plan : List Fault) :
    StableInv h T cc0 N0 (round h W plan).1 :=
  round_inv hN inv plan

/-- **`C18.stable`** from the probe hypothesis alone: for every hashing, world, fuel, silence counter and fault plan. None of
    the guards of the clause other than `held` is used (paused, invalid selector, deleting, faulted: the conclusion holds all
    the same), and `held` only to know that the probed name is a name of the initial store. -/
theorem C18_stable_of_probe (h : Hashing) (i : SyncIn) (plan : List Fault) (fuel silent : Nat)
    (hP : ProbeOk (h.nameOf i.template (i.collisionCount.getD 0)) i.template i.store) :
    C18stable h i plan (runRounds h fuel silent i plan) = true :=
  C18stable_of_probe h i plan fuel silent hP

/-- **`C18.stable`**: the clause of the world driver is true on the model's run — every hashing, world, fuel, silence counter
    and fault plan; revision names unique. -/
theorem C18_stable (h : Hashing) (i : SyncIn) (plan : List Fault) (fuel silent : Nat) (hnd : SYa.StoreNamesOk i) :
    C18stable h i plan (runRounds h fuel silent i plan) = true :=
  C18stable_holds h i plan fuel silent hnd

/-- the form the driver evaluates: the run from the initial world with an empty plan -/
theorem C18_stable_run (h : Hashing) (i : SyncIn) (n : Nat) (hnd : SYa.StoreNamesOk i) :
    C18stable h i [] (runRounds h n 0 i []) = true :=
  C18stable_holds h i [] n 0 hnd

/-! ## non-vacuity, and the excluded points

`exW`: set `web`, 2 replicas, Parallel, both pods Failed. -/
private def exH : Hashing := { nameOf := fun d c => s!"web-{d}{c}", hashNumOf := fun _ _ => none }
private def exPod (id : Nat) (ord : Int) (ph : Phase) : Pod :=
  { id := id, ord := ord, phase := ph, ready := true, terminating := false, rev := "web-a", idOk := true, stOk := true }
private def exRev (name : String) (number : Int) (data : String) (owner : Owner) (sel marker : Bool) : Rev :=
  { name := name, number := number, ctime := 0, data := data, hashNum := none, owner := owner, selMatch := sel, marker := marker }
private def exW : SyncIn :=
  { setName := "web", paused := false, selectorOk := true,
    view := { replicas := some 2, slots := [], parallel := true, strat := .rolling, ru := some (some 0),
              deleting := false, generation := 2, stCurrentReplicas := 2 },
    stored := { replicas := 2, ready := 2, current := 2, updated := 0, currentRev := "web-a", updateRev := "web-a",
                observedGen := 1 },
    collisionCount := none, historyLimit := some 2, template := "a",
    fresh := { gone := false, uidOk := true, deleting := false },
    store := [exRev "web-a" 1 "a" .self true false],
    pods := [ { name := "web-0", pod := exPod 0 0 .failed, owner := .self, selMatch := true, member := true },
              { name := "web-1", pod := exPod 1 1 .failed, owner := .self, selMatch := true, member := true } ] }

/-- the hypotheses of `C04_removed_sync` hold on `exW` -/
example : (exW.pods.map (·.name)).Nodup ∧ (exW.pods.map (·.pod.id)).Nodup := by decide

/-- reconcile level: the delete of the Failed pod at ordinal 1 is refused; the reconcile replaced ordinal 0 and stops there -/
example : observe (updateStatefulSet exW.view "web-a" "web-a" (exW.pods.map (·.pod)) [(1, 1)]).1.acts =
    [.delete 0 (some 0), .create 0 "web-a", .delete 1 (some 1)] := by decide

/-- sync level: the same through the API-level fault plan `delete:pod:web-1@0`. Evaluated (`#eval`; `String.splitOn`, which
    `podFaults` and `annotate` call, does not reduce in the kernel): the log is `list:revs ×4, delete:pod:web-0,
    create:pod:web-0, delete:pod:web-1`, the outcome `.err` — no create follows the refused delete. The clause, by the
    theorem: -/
example : C04removedSync [{ key := "delete:pod:web-1", occ := 0, kind := .other }]
    (syncF exH exW [{ key := "delete:pod:web-1", occ := 0, kind := .other }]).observe.log = true :=
  C04_removed_sync exH exW _ (by decide) (by decide)

/-- the fault-free sync of `exW` replaces both Failed pods -/
example : (syncF exH exW []).log = ["list:revs", "list:revs", "list:revs", "list:revs", "delete:pod:web-0",
    "create:pod:web-0", "delete:pod:web-1", "create:pod:web-1", "updatestatus"] := by decide

/-! Unique pod names are necessary for the sync-level clause ON THE MODEL. `exDupPods`: two cached pods both named `web-1`
    (ordinals 0 and 1 — no API server holds such a pair), a fault on the SECOND `delete:pod:web-1` call. `podFaults` ignores
    it (occurrence ≠ 0), `annotate` reports it, and `create:pod:web-1` follows. Evaluated with `#eval` (not by `decide`, for
    the reason above): the log is `list:revs ×4, delete:pod:web-1, create:pod:web-0, delete:pod:web-1, create:pod:web-1,
    updatestatus` and `C04removedSync` is `false`. The hypothesis fails, as it must: -/
private def exDupPods : SyncIn :=
  { exW with pods := [ { name := "web-1", pod := exPod 0 0 .failed, owner := .self, selMatch := true, member := true },
                       { name := "web-1", pod := exPod 1 1 .failed, owner := .self, selMatch := true, member := true } ] }
example : ¬ (exDupPods.pods.map (·.name)).Nodup := by decide

/-- `C11.revowner`, non-vacuously: two visible orphans, the uncached read finds another uid — the sync stops after that
    read, nothing is adopted (the label sync did run) -/
private def exOrph : SyncIn :=
  { exW with store := [exRev "web-a" 1 "a" .none false true, exRev "web-b" 2 "b" .none true false] }
private def exOrphStale : SyncIn := { exOrph with fresh := { gone := false, uidOk := false, deleting := false } }
example : (syncF exH exOrphStale []).log = ["list:revs", "list:revs", "update:rev:web-a", "get:set"] ∧
    (syncF exH exOrphStale []).store.map (fun r => (r.name, r.owner, r.selMatch)) =
      [("web-a", .none, true), ("web-b", .none, true)] ∧
    SYa.StoreNamesOk exOrphStale := ⟨by decide, by decide, by unfold SYa.StoreNamesOk; decide⟩

/-- `C18.adopted`, non-vacuously: with a confirming read both orphans end up controlled by the set, and the sync succeeds -/
example : (syncF exH exOrph []).outcome = .ok ∧
    (syncF exH exOrph []).store.map (fun r => (r.name, r.owner)) = [("web-a", .self), ("web-b", .self)] := by decide

/-- unique revision names are necessary for both revision clauses: an untouched store (paused set) with two revisions
    named `a`, one the set's own, one nobody's … -/
private def exDupRevs : SyncIn :=
  { exOrphStale with paused := true, store := [exRev "a" 1 "a" .self true false, exRev "a" 2 "a" .none true false] }
example : C11revowner exDupRevs (syncF exH exDupRevs []).observe = false := by decide

/-- … and a running set with two revisions named `web-a`, one somebody else's (listed first, it hides the orphan from
    `ListRevisions`), one nobody's: the sync succeeds and the orphan is still an orphan -/
private def exDupRevs18 : SyncIn :=
  { exW with store := [exRev "web-a" 1 "a" .other true false, exRev "web-a" 2 "a" .none true false] }
example : C18adopted exDupRevs18 [] (syncF exH exDupRevs18 []).observe = false := by decide

/-- `C12.completion` at sync level, non-vacuously: the sync of `exOrph` writes a status (`currentRevision` stays) and
    replaces both Failed pods; the clause holds on the calls read back from its log, by the theorem (`podActs` calls
    `String.splitOn`; evaluated with `#eval` it returns `[delete 0 (some 0), create 0 "", delete 1 (some 1), create 1 ""]`) -/
example : ((syncF exH exOrph []).status.map (·.currentRev)) = some "web-a" ∧ (syncF exH exOrph []).upd = "web-a" ∧
    observe (syncF exH exOrph []).acts =
      [.delete 0 (some 0), .create 0 "web-a", .delete 1 (some 1), .create 1 "web-a"] := by decide
example : C12completionSync exOrph (syncF exH exOrph []) (syncF exH exOrph []).observe [] = true :=
  C12_completion_sync exH exOrph [] []

/-! `C18.stable`, non-vacuously. `exHeld`: the template `a` is recorded by `web-a0`, the name probed first, still
    controlled by somebody else (the built-in set before the garbage collector orphans its revision): invisible to the
    listing, so every sync tries to create it, is answered AlreadyExists, reads it back and re-uses it. Evaluated with `#eval`
    (`runRounds` goes through `applyPatches`, which calls `String.splitOn`): six rounds, each leaving the store
    `[web-a0 ↦ a]`; the clause is `true`. -/
private def exHeld : SyncIn :=
  { exW with store := [exRev "web-a0" 1 "a" .other true false],
             stored := { exW.stored with currentRev := "web-a0", updateRev := "web-a0" },
             pods := [ { name := "web-0", pod := { exPod 0 0 .running with rev := "web-a0" }, owner := .self, selMatch := true, member := true },
                       { name := "web-1", pod := { exPod 1 1 .running with rev := "web-a0" }, owner := .self, selMatch := true, member := true } ] }
example : (exHeld.store.any fun r => r.name == exH.nameOf exHeld.template (exHeld.collisionCount.getD 0) && r.data == exHeld.template) = true ∧
    SYa.StoreNamesOk exHeld := ⟨by decide, by unfold SYa.StoreNamesOk; decide⟩
example : (syncF exH exHeld []).log =
      ["list:revs", "list:revs", "list:revs", "list:revs", "create:rev:web-a0", "get:rev:web-a0", "updatestatus"] ∧
    (syncF exH exHeld []).store.map (fun r => (r.name, r.data)) = [("web-a0", "a")] ∧
    (syncF exH exHeld []).cc = some 0 := by decide

/-! Unique revision names (more precisely `ProbeOk`) are necessary ON THE MODEL: `exDupProbe` holds two revisions named
    `web-a0`, the first recording other data. `find?` meets the first, the loop moves on to collision count 1 and creates
    `web-a1` — a second revision recording the template, under a new name. Evaluated with `#eval`: every round leaves
    `[web-a0 ↦ x, web-a0 ↦ a, web-a1 ↦ a]` and `C18stable` is `false`. No API server holds two objects of one name: fed to
    the real code (`tools/difftool.sh world`) the harness's API keeps only the first of the two, so the real world does not
    hold the template at all and the case is not a realisable one (model and implementation differ on it). -/
private def exDupProbe : SyncIn :=
  { exHeld with store := [exRev "web-a0" 1 "x" .self true false, exRev "web-a0" 2 "a" .other true false] }
example : ¬ SYa.StoreNamesOk exDupProbe := by unfold SYa.StoreNamesOk; decide
example : (syncF exH exDupProbe []).store.map (fun r => (r.name, r.data)) =
    [("web-a0", "x"), ("web-a0", "a"), ("web-a1", "a")] := by decide

end Asts.Glue2
