import Asts.Proofs.Watch
import Asts.Proofs.WatchMonitor

/-! # C20 — a hijacked watch relays everything, survives error events, shuts down cleanly

The theorems are about `Asts.Watch` with `Variant.fixed`: the relay of `client/apis/apps/v1/helper/hijack.go` *with the proposed
repair* (non-StatefulSet payloads relayed unchanged; the send to the consumer selects on a `done` channel closed by `Stop`).
On the pinned tree both halves of the property are false (see the `example`s at the end and
`corpus/watch/defects-found-on-pinned-tree.txt`); the engine `watch` compares this model with whatever code is in the tree.

`Reachable .fixed w` quantifies over every finite interleaving of `srcSend e` (any type, any payload), `srcClose`,
`relayStep`, `consumerRecv`, `consumerStop` (once or repeatedly) from the freshly opened watch — no bound on the length, on
the number of events, or on how far the source runs ahead of the consumer.

Not modelled: the Go scheduler and memory model. Every action is atomic, `Stop`'s mutex is folded into that atomicity, and the
relay's `select` is represented by both of its branches being separately enabled. The tie between this transition system and
the goroutines is observational (scripted schedules, quiescence detected by goroutine-stack scans, engine `watch`). -/
namespace Asts.C20
open Asts.Watch

/-- Safety. In every reachable state the consumer's log is `convert` of a prefix of what the source offered, in order:
    nothing invented, nothing duplicated, nothing reordered, nothing skipped. -/
theorem relay_safety (w : W) (h : Reachable .fixed w) :
    ∃ pre rest, w.sent = pre ++ rest ∧ w.log = pre.map convert :=
  log_prefix h

/-- `convert` keeps the event type and the object's identity, turns a StatefulSet payload into the built-in one and leaves
    every other payload (the `Status` of an Error event, a foreign object) as it is; it is the conversion the monitor demands. -/
theorem convert_faithful (e : Ev) :
    (convert e).typ = e.typ ∧ (convert e).id = e.id ∧ (e.pay = .asSet → (convert e).pay = .builtin) ∧
      (e.pay ≠ .asSet → convert e = e) ∧ convert e = Spec.expected e :=
  ⟨convert_typ e, convert_id e, convert_set e, convert_nonset e, convert_eq_expected e⟩

/-- No reachable state has the relay crashed, whatever the events carry. -/
theorem no_crash (w : W) (h : Reachable .fixed w) : w.panicked = false :=
  (inv_reachable h).noPanic

/-- Cleanup, relay alone. From every reachable state in which the consumer has stopped, or the source has ended and nothing
    is left to deliver (`Finishing`), every maximal run of relay steps has at most `rank w ≤ 4` steps and ends with the
    goroutine gone and the result channel closed. `rank` (4 at the receive, 3 at the send, 2 and 1 in the two deferred calls,
    0 when gone) strictly decreases with every relay step (`rank_decreases`). -/
theorem cleanup (w : W) (h : Reachable .fixed w) (hq : Finishing w) (n : Nat) (w' : W)
    (hrun : RelayRun .fixed w n w') (hmax : relayStep? .fixed w' = none) :
    n ≤ rank w ∧ rank w ≤ 4 ∧ w'.pc = .exited ∧ w'.resultClosed = true :=
  let ⟨h1, h2⟩ := cleanup_run (inv_reachable h) hq hrun hmax
  ⟨h1, rank_le_four w, h2⟩

/-- The measure behind `cleanup`. -/
theorem relay_step_decreases_rank (v : Variant) (w w' : W) (hs : relayStep? v w = some w') : rank w' < rank w :=
  rank_decreases hs

/-- A maximal run of relay steps exists from every state (it is what `settle` computes), so `cleanup` is not vacuous. -/
theorem maximal_run_exists (v : Variant) (w : W) :
    ∃ k, RelayRun v w k (settle v w) ∧ relayStep? v (settle v w) = none :=
  let ⟨k, hk⟩ := settle_run v w
  ⟨k, hk, settle_blocked v w⟩

/-- Cleanup after `Stop()`, concretely: from any reachable state, `Stop` followed by the relay running until it blocks leaves
    the result channel closed and no goroutine behind. -/
theorem stop_then_settle (w : W) (h : Reachable .fixed w) (k : Nat) :
    (settle .fixed (act .fixed w (.consumerStop k))).pc = .exited ∧
      (settle .fixed (act .fixed w (.consumerStop k))).resultClosed = true :=
  stop_then_settle_exited h k

/-- Cleanup under every schedule. Once the consumer has stopped, whatever else happens (more events, more Stops, receive
    attempts, the source ending) the relay is gone and the channel closed as soon as the relay has been scheduled `mu w` times;
    `mu` (twice the source queue plus a rank of the program counter) never increases and decreases with each relay step. -/
theorem cleanup_any_schedule (w : W) (h : Reachable .fixed w) (hst : w.stopped = true) (as : List Act)
    (hfair : mu w ≤ countRelay as) :
    (exec .fixed w as).pc = .exited ∧ (exec .fixed w as).resultClosed = true :=
  stopped_exits_any_schedule h hst as hfair

/-- `Stop` is idempotent: a second `Stop` (with whatever the source does on a second `Stop`) changes nothing. -/
theorem stop_idempotent (v : Variant) (w : W) (k k' : Nat) :
    act v (act v w (.consumerStop k)) (.consumerStop k') = act v w (.consumerStop k) :=
  Asts.Watch.stop_idempotent v w k k'

/-- The monitor is true on the model: for EVERY script (any length, any events, any placement of receives, Stops and the
    source's end) all six clauses of `Spec.monitor` — the predicate the engine evaluates on the real relay's observation — hold
    of the observation the repaired model produces. -/
theorem monitor_on_model (script : List SAct) : (Spec.monitor script (observe .fixed script)).all = true :=
  Asts.Watch.monitor_on_model script

/-- Scripts are interleavings: the state a script ends in is reachable in the transition system, so the theorems above
    apply to it. -/
theorem script_states_reachable (v : Variant) (script : List SAct) :
    Reachable v (srun v (settle v {}) 0 script).1 :=
  reachable_srun (reachable_settle ⟨[], rfl⟩) 0 script

/-! ## non-vacuity, and what goes wrong without the repair -/

/-- the monitor is not trivially true: on the unrepaired model it rejects the two defect schedules -/
example : (Spec.monitor [.send .error .status] (observe .pinned [.send .error .status])).nopanic = false := by decide
example : (Spec.monitor [.send .added .asSet, .stop] (observe .pinned [.send .added .asSet, .stop])).cleanup = false := by decide
example : (Spec.monitor [.send .added .asSet, .stop] (observe .fixed [.send .added .asSet, .stop])).all = true := by decide

/-- an Error event with a `Status` payload is delivered, then Stop and the source's end are survived -/
example :
    let w := exec .fixed {} [.srcSend ⟨.added, .asSet, 0⟩, .relayStep, .srcSend ⟨.error, .status, 1⟩, .consumerRecv, .relayStep,
      .consumerRecv, .consumerStop 0, .consumerStop 0, .relayStep, .relayStep, .relayStep]
    w.log = [⟨.added, .builtin, 0⟩, ⟨.error, .status, 1⟩] ∧ w.pc = .exited ∧ w.resultClosed = true ∧ w.panicked = false := by
  decide

/-- pinned tree, defect (a): the same Error event crashes the relay -/
example : (exec .pinned {} [.srcSend ⟨.error, .status, 0⟩, .relayStep]).panicked = true := by decide

/-- pinned tree, defect (b): Stop while the relay is blocked in its send — the relay can never move again, the channel stays open -/
example :
    let w := exec .pinned {} [.srcSend ⟨.added, .asSet, 0⟩, .relayStep, .consumerStop 0]
    w.stopped = true ∧ relayStep? .pinned w = none ∧ w.pc ≠ .exited ∧ w.resultClosed = false := by
  decide

/-- the same schedule with the repair -/
example :
    let w := settle .fixed (exec .fixed {} [.srcSend ⟨.added, .asSet, 0⟩, .relayStep, .consumerStop 0])
    w.pc = .exited ∧ w.resultClosed = true := by
  decide

end Asts.C20
