import Asts.Proofs.L1_c_C14

/-! # C14 — the Parallel policy never waits on other pods when scaling

Under `podManagementPolicy: Parallel`, with no API error, one `updateStatefulSet` issues a creation for every desired ordinal
that is vacant (or holds a Failed/Succeeded pod, which it first deletes) and a deletion for every live pod outside the
desired set — in that same reconcile, whatever the health of the other pods — while the rolling update still takes down at
most one pod. `C14` is the monitor of `Spec/Reconcile.lean`; the theorem is stated under exactly the preconditions under which
`monitorRc` evaluates it (`Parallel`, empty fault plan, not deleting, `wfSnapshot`), plus what the driver guarantees by
construction (pod ids are their positions, fewer than `freshId` pods — `classify` looks pods up by id). -/
namespace Asts.C14
open Asts.L1c

theorem C14_holds (v : SetView) (cur upd : String) (pods : List Pod) (f : Faults) (r : Int)
    (hr : v.replicas = some r) (h0 : 0 ≤ r)
    (hpar : v.parallel = true) (hf : f = []) (hdel : v.deleting = false) (hwf : wfSnapshot pods = true)
    (hid : ∀ (i : Nat) (p : Pod), pods[i]? = some p → p.id = i) (hlen : pods.length ≤ freshId) :
    (updateStatefulSet v cur upd pods f).2 = .ok ∧
    C14 v pods (observe (updateStatefulSet v cur upd pods f).1.acts) = true := by
  subst hf
  exact updateStatefulSet_par' v cur upd pods r hr h0 hpar hdel (snap_of_wf hwf hid hlen)

/-- `Prop` reading: the creations are exactly (and in order) the desired ordinals that are vacant or hold a Failed/Succeeded
    pod; the scale-in deletions are, up to order, exactly the non-terminating pods outside the desired set; and at most one
    pod is deleted for the rolling update. -/
theorem C14_prop (v : SetView) (cur upd : String) (pods : List Pod) (f : Faults) (r : Int)
    (hr : v.replicas = some r) (h0 : 0 ≤ r)
    (hpar : v.parallel = true) (hf : f = []) (hdel : v.deleting = false) (hwf : wfSnapshot pods = true)
    (hid : ∀ (i : Nat) (p : Pod), pods[i]? = some p → p.id = i) (hlen : pods.length ≤ freshId) :
    let acts := observe (updateStatefulSet v cur upd pods f).1.acts
    let D := desired r v.slots
    createOrds acts = D.filter (fun o => match podAt pods o with | none => true | some p => p.failed || p.succeeded) ∧
    (scaleDeletes D pods acts).Perm (((condemnedSpec D pods).filter (fun c => !c.terminating)).map (·.ord)) ∧
    (updateDeletes D pods acts).length ≤ 1 := by
  have h := (C14_holds v cur upd pods f r hr h0 hpar hf hdel hwf hid hlen).2
  have hrep : replicasOf v = r := by simp [replicasOf, hr]
  simp only [Asts.C14, hrep, Bool.and_eq_true, beq_iff_eq, decide_eq_true_eq] at h
  refine ⟨h.1.1, ?_, h.2⟩
  have := h.1.2
  have h1 := List.mergeSort_perm (scaleDeletes (desired r v.slots) pods (observe (updateStatefulSet v cur upd pods f).1.acts))
    (fun a b => decide (a ≤ b))
  rw [this] at h1
  exact h1.symm.trans (List.mergeSort_perm _ _)

/-- non-vacuity: replicas 4 with slot 1 (desired 0,2,3,4); ordinal 0 unready, 2 Failed, 3 and 4 vacant; live pods at 1 (a
    slot) and 7, a terminating pod at 9 — everything unhealthy, and still 3 creations and 2 scale-in deletions at once -/
def exPods : List Pod :=
  [ { id := 0, ord := 0, phase := .pending, ready := false, terminating := false, rev := "a", idOk := true, stOk := true },
    { id := 1, ord := 2, phase := .failed, ready := false, terminating := false, rev := "a", idOk := true, stOk := true },
    { id := 2, ord := 1, phase := .running, ready := false, terminating := false, rev := "a", idOk := true, stOk := true },
    { id := 3, ord := 7, phase := .running, ready := true, terminating := false, rev := "a", idOk := true, stOk := true },
    { id := 4, ord := 9, phase := .running, ready := true, terminating := true, rev := "a", idOk := true, stOk := true } ]

def exView : SetView :=
  { replicas := some 4, slots := [1], parallel := true, strat := .rolling, ru := some (some 0), deleting := false,
    generation := 1, stCurrentReplicas := 0 }

example : exView.replicas = some 4 ∧ wfSnapshot exPods = true ∧
    createOrds (observe (updateStatefulSet exView "a" "b" exPods []).1.acts) = [2, 3, 4] ∧
    scaleDeletes (desired 4 [1]) exPods (observe (updateStatefulSet exView "a" "b" exPods []).1.acts) = [7, 1] := by
  decide

example : ∀ (i : Nat) (p : Pod), exPods[i]? = some p → p.id = i := by
  intro i p h
  match i, h with
  | 0, h | 1, h | 2, h | 3, h | 4, h => cases h; rfl
  | n + 5, h => simp [exPods] at h

end Asts.C14
