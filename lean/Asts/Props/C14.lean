import Asts.Spec.Reconcile

/-! # C14 — property theorems (under construction) -/
namespace Asts.C14

end Asts.C14
