import Asts.Proofs.SY_a_Headlines
import Asts.Proofs.SY_a_Pause

/-! # C11 — deleted and paused sets are left alone, and a pause is lossless

Property theorems only; the lemmas live in `Asts/Proofs/SY_a_*.lean`. `syncF` (`Model/Sync.lean`) is the model of one whole
`StatefulSetController.sync` + `UpdateStatefulSet`, tied to the Go code by the `sync` engine; `C11paused` and `C11deleting`
are the monitors of `Spec/Sync.lean`; `round` / `settle` / `applySync` are the round semantics of `Model/World.lean` (tied
by the `world` engine). All theorems hold for every hashing function, revision store, pod list and fault plan.

The only hypothesis is `StoreNamesOk i` for the store half of `C11deleting`: names are unique in the revision store (one
namespace of the API). The monitor looks every input revision up *by name* in the final store; with two stored revisions
of one name and different owners it is false even on an untouched store (`exDup` below). The `Prop` reading
`deleting_store_keeps` needs it for the same reason. -/
namespace Asts.C11
open Asts Asts.SYa

/-! ## (1) paused: no call of any kind -/

/-- a paused set: the sync issues no call (no read, no write), writes no status, leaves the revision store as it is and
    reports success — whatever state the pods, the revisions and the fault plan are in -/
theorem paused_sync_is_silent (h : Hashing) (i : SyncIn) (plan : List Fault) (hp : i.paused = true) :
    (syncF h i plan).log = [] ∧ (syncF h i plan).status = none ∧ (syncF h i plan).store = i.store ∧
    (syncF h i plan).outcome = .ok ∧ (syncF h i plan).acts = [] := by
  rw [syncF_paused h i plan hp]; exact ⟨rfl, rfl, rfl, rfl, rfl⟩

/-- **C11, paused**: the monitor is true on the model for every input -/
theorem C11_paused (h : Hashing) (i : SyncIn) (plan : List Fault) :
    C11paused i (syncF h i plan).observe = true :=
  C11paused_holds h i plan

/-! ## (2) a set carrying a deletion timestamp -/

/-- the ingredients: the adoption phase returns at once, the claim decision is keep or ignore, the claim pass logs
    nothing, the reconcile proper issues no action -/
theorem deleting_adoption_skipped (plan : List Fault) (fresh : Fresh) (s : RevSt) :
    adoptOrphanRevisionsF plan true fresh s = (s, .ok) :=
  adoptF_deleting plan fresh s

theorem deleting_claims_nothing_new (c : CPod) : claimDecision true c = .keep ∨ claimDecision true c = .ignore :=
  claimDecision_deleting c

theorem deleting_claim_pass_silent (plan : List Fault) (fresh : Fresh) (pods : List CPod) (tr : Tr) :
    (claimPodsF plan true fresh pods tr).tr = tr ∧ (claimPodsF plan true fresh pods tr).failed = false ∧
    (claimPodsF plan true fresh pods tr).canAdopt = none ∧
    ∀ c ∈ (claimPodsF plan true fresh pods tr).claimed, c ∈ pods ∧ claimDecision true c = .keep :=
  claimPodsF_deleting plan fresh pods tr

theorem deleting_no_pod_action (h : Hashing) (i : SyncIn) (plan : List Fault) (hd : i.view.deleting = true) :
    (syncF h i plan).acts = [] :=
  syncF_deleting_acts h i plan hd

/-- the whole log of a sync of a deleting set: revision listing, revision bookkeeping of the set's own records
    (renumbering a listed revision, creating the update revision, the reads that go with them, deleting own history) and
    the status update. No `patch:` entry, no pod or claim entry. The store afterwards: the old one with numbers changed or
    one own revision added, minus truncated own history. -/
theorem deleting_log_and_store (h : Hashing) (i : SyncIn) (plan : List Fault) (hd : i.view.deleting = true) :
    (∃ st2, Resolved i.store st2 ∧ ∀ x ∈ (syncF h i plan).store, x ∈ st2) ∧
    ∀ e ∈ (syncF h i plan).log,
      e = "list:revs" ∨ GetRevEntry (sortRevs (listRevisions i.store)) e ∨ e = "updatestatus" ∨
      (∃ r ∈ sortRevs (listRevisions i.store), r.owner = .self ∧ e = s!"delete:rev:{r.name}") :=
  syncF_deleting_structure h i plan hd

/-- no ControllerRevision is adopted, released or relabelled: every revision of the final store that bears the name of an
    input revision has that revision's owner, selector match, marker and data -/
theorem deleting_store_keeps (h : Hashing) (i : SyncIn) (plan : List Fault) (hd : i.view.deleting = true)
    (hnd : StoreNamesOk i) :
    ∀ r ∈ i.store, ∀ x ∈ (syncF h i plan).store, x.name = r.name →
      x.owner = r.owner ∧ x.selMatch = r.selMatch ∧ x.marker = r.marker ∧ x.data = r.data := by
  obtain ⟨⟨st2, hres, hsub⟩, _⟩ := syncF_deleting_structure h i plan hd
  intro r hr x hx hn
  exact resolved_keeps hnd hres hr (hsub x hx) hn

/-- **C11, deleting**: the monitor is true on the model: no pod / claim write, no `patch` of anything, and every input
    revision still found in the store has its owner and selector match -/
theorem C11_deleting (h : Hashing) (i : SyncIn) (plan : List Fault) (hnd : StoreNamesOk i) :
    C11deleting i (syncF h i plan).observe = true :=
  C11deleting_holds h i plan hnd

/-! ## (3) a pause is lossless -/

/-- applying the effects of a paused sync to the world changes no API object: revision store, stored status, collision
    count, template, spec are as before; only the two derived fields are normalised (the view's copy of
    `status.currentReplicas` is refreshed from the stored status, the pod list is re-sorted and re-indexed, as after every
    sync) -/
theorem paused_sync_changes_nothing (h : Hashing) (i : SyncIn) (plan : List Fault) (hp : i.paused = true) :
    applySync i plan (syncF h i plan) =
      { i with view := { i.view with stCurrentReplicas := i.stored.current }, pods := reindex (sortPods i.pods) } :=
  applySync_paused h i plan hp

/-- on a world in normal form a paused sync is the identity -/
theorem paused_sync_identity (h : Hashing) (i : SyncIn) (plan : List Fault) (hp : i.paused = true)
    (hv : i.view.stCurrentReplicas = i.stored.current) (hpods : reindex (sortPods i.pods) = i.pods) :
    applySync i plan (syncF h i plan) = i :=
  applySync_paused_id h i plan hp hv hpods

/-- one round (settle; sync) of a paused world: no write, outcome ok, still paused, and the API state afterwards is the
    settled one (caches caught up, terminating pods gone, pods Ready — none of it the controller's doing): store, stored
    status, collision count and template untouched, pods = the settled pods re-sorted. Un-pausing therefore resumes from
    exactly the API state an unpaused controller would have found. -/
theorem paused_round (h : Hashing) (i : SyncIn) (plan : List Fault) (hp : i.paused = true) :
    (round h i plan).2.writes = 0 ∧ (round h i plan).2.out = "ok" ∧
    (round h i plan).1.paused = true ∧
    (round h i plan).1.store = i.store ∧ (round h i plan).1.stored = i.stored ∧
    (round h i plan).1.collisionCount = i.collisionCount ∧ (round h i plan).1.template = i.template ∧
    (round h i plan).1.pods = reindex (sortPods (settle i).pods) :=
  round_paused h i plan hp

/-! ## non-vacuity

`exDel`: a set being deleted with everything there is to tempt it: an orphan pod that matches, a controlled pod that no
longer matches, an orphan revision, a template change (so the update revision is created), replicas 2 with one pod. -/
private def exH : Hashing := { nameOf := fun d c => s!"web-{d}{c}", hashNumOf := fun _ _ => none }
private def exPod (id : Nat) (ord : Int) : Pod :=
  { id := id, ord := ord, phase := .running, ready := true, terminating := false, rev := "web-a", idOk := true, stOk := true }
private def exDel : SyncIn :=
  { setName := "web", paused := false, selectorOk := true
    view := { replicas := some 2, slots := [], parallel := true, strat := .rolling, ru := some (some 0), deleting := true,
              generation := 2, stCurrentReplicas := 1 }
    stored := {}, collisionCount := none, historyLimit := some 0, template := "b"
    fresh := { gone := false, uidOk := true, deleting := true }
    store := [{ name := "web-a", number := 1, ctime := 0, data := "a", hashNum := none, owner := .self, selMatch := true, marker := false },
              { name := "web-o", number := 2, ctime := 0, data := "o", hashNum := none, owner := .none, selMatch := true, marker := true }]
    pods := [ { name := "web-0", pod := exPod 0 0, owner := .self, selMatch := true, member := true },
              { name := "web-1", pod := exPod 1 1, owner := .none, selMatch := true, member := true },
              { name := "web-5", pod := exPod 2 5, owner := .self, selMatch := false, member := true } ] }

example : exDel.view.deleting = true ∧ StoreNamesOk exDel := ⟨rfl, by unfold StoreNamesOk; decide⟩
example : (syncF exH exDel []).log = ["list:revs", "list:revs", "create:rev:web-b0", "updatestatus"] := by decide
example : ((syncF exH exDel []).store.map (fun r => (r.name, r.owner))) =
    [("web-a", .self), ("web-b0", .self), ("web-o", .none)] := by decide

/-- a paused set in the same situation -/
private def exPaused : SyncIn := { exDel with paused := true }
example : (syncF exH exPaused [{ key := "list:revs", occ := 0, kind := .other }]).log = [] := by decide

/-! `StoreNamesOk` is necessary for the monitor: two stored revisions named `a` with different owners. The set is paused
    (so the store is certainly untouched), yet the monitor, looking the second one up by name, finds the first. -/
private def exDup : SyncIn :=
  { exPaused with
    store := [{ name := "a", number := 1, ctime := 0, data := "a", hashNum := none, owner := .self, selMatch := true, marker := false },
              { name := "a", number := 2, ctime := 0, data := "a", hashNum := none, owner := .none, selMatch := true, marker := false }] }
example : C11deleting exDup (syncF exH exDup []).observe = false := by decide

end Asts.C11
