import Asts.Spec.Sync

/-! # C11 — property theorems (under construction) -/
namespace Asts.C11

end Asts.C11
