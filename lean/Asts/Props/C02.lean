import Asts.Spec.World

/-! # C02 — property theorems (under construction) -/
namespace Asts.C02

end Asts.C02
