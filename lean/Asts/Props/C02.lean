import Asts.Proofs.C02_Target
import Asts.Proofs.C02_Round
import Asts.Proofs.C02_Idem
import Asts.Proofs.C02_Policies
import Asts.Proofs.C02_BBound
import Asts.Proofs.C02_CFront

/-! # C02 — reconciliation converges to exactly the desired pods and then goes quiet

Model: `syncF` (`Model/Sync.lean`, one whole `sync` + `UpdateStatefulSet`), `settle`, `applySync`, `round` (`Model/World.lean`).
Spec: `wfWorld`, `finalState`, `silentOk` (`Spec/World.lean`). Lemmas: `Asts/Proofs/C02_*.lean` (namespace `Asts.C02p`).

## Part 1 — quiescence (this file, fully proved, for EVERY hashing function, store, pod list; no size bound)

`Final h i` (`finalB` in `Proofs/C02_Defs.lean`, a decidable predicate) says of a world `i`:
* spec: not paused, selector parses, not being deleted, `replicas` present and `≥ 0`, strategy RollingUpdate or OnDelete,
  history limit present and `≥ 0`;
* pods: every pod owned by the set matches the selector, is a member, carries the canonical name of its ordinal, its ordinal
  is desired, it is Running ∧ Ready ∧ not terminating, identity and storage match, and — under RollingUpdate, at or above
  the partition — it is at `status.updateRevision`; every desired ordinal is held by an owned pod and there are exactly
  `|desired|` owned pods; no orphan pod is adoptable (an orphan fails the selector / is no member / is terminating);
* revisions: the newest listed revision (after `SortControllerRevisions`) is named `status.updateRevision` and `EqualRevision`
  to the revision built from the template (this is where the hashing enters); `status.currentRevision` names a listed
  revision; no listed revision is an orphan; the listed owned revisions not named by the status or by a pod are within the
  history limit;
* status: the cached status equals the census of the owned pods after the completion rule (`observedGeneration` may be ahead).

Hypotheses the theorems do NOT need: nothing on `fresh` (the uncached GET is never made), on `view.stCurrentReplicas` (no pod is
created), on pod ids or list order, on pods owned by somebody else. -/
namespace Asts.C02
open Asts Asts.C02p

/-- the quiescent state (see the header for its reading) -/
abbrev Final (h : Hashing) (i : SyncIn) : Prop := Asts.C02p.Final h i

/-- **Quiescence.** In a `Final` world a reconcile issues no write at all (its whole call log is four `list:revs`) and returns
    success — for every hashing function. -/
theorem C02_quiescent (h : Hashing) (i : SyncIn) (hf : Final h i) :
    (syncF h i []).log.filter isWrite = [] ∧ (syncF h i []).outcome = .ok :=
  final_quiet hf

/-- The same with the whole output spelled out: the log, no status write, the store untouched, no pod action. -/
theorem C02_quiescent_output (h : Hashing) (i : SyncIn) (hf : Final h i) :
    syncF h i [] = { log := ["list:revs", "list:revs", "list:revs", "list:revs"], status := none, cc := none, store := i.store,
                     cur := i.stored.currentRev, upd := i.stored.updateRev, claimed := ownPods i, acts := [], actsDone := 0,
                     outcome := .ok } :=
  syncF_final h i hf

/-- `Final` is the state the property promises: `finalState` of `Spec/World.lean` (own pods = the desired ordinals by canonical
    name, each healthy with its identity, at the update revision where RollingUpdate reaches; `status.replicas =
    status.readyReplicas = spec.replicas`). -/
theorem C02_final_is_target (h : Hashing) (i : SyncIn) (hf : Final h i) (out : String) (w : Nat) (revs : List Rev) :
    finalState i { out := out, writes := w, pods := i.pods, revs := revs, status := i.stored } = true :=
  final_finalState hf out w revs

/-- `status.replicas = status.readyReplicas = spec.replicas`, spelled out. -/
theorem C02_final_counts (h : Hashing) (i : SyncIn) (hf : Final h i) :
    i.stored.replicas = replicasOf i.view ∧ i.stored.ready = replicasOf i.view :=
  final_counts hf

/-- `Final` survives the fairness step (caches catch up, pods become ready). -/
theorem C02_final_settle (h : Hashing) (i : SyncIn) (hf : Final h i) : Final h (settle i) :=
  final_settle h i hf

/-- **Stability.** A round (settle; sync; apply the writes) from a `Final` world ends in a `Final` world. -/
theorem C02_final_stable (h : Hashing) (i : SyncIn) (hf : Final h i) : Final h (round h i []).1 :=
  final_round h i hf

/-- The observation of such a round is what the monitor `C02quiet` looks for: silent, successful, in the target state. -/
theorem C02_final_round_observed (h : Hashing) (i : SyncIn) (hf : Final h i) :
    silentOk (round h i []).2 = true ∧ finalState i (round h i []).2 = true :=
  final_round_obs hf

/-- **From then on a reconcile issues no write at all**: after any number of further rounds the world is still `Final`, and
    the next round is silent, successful and in the target state. -/
theorem C02_quiet_forever (h : Hashing) (i : SyncIn) (hf : Final h i) (n : Nat) :
    Final h (roundsN h n i) ∧ silentOk (round h (roundsN h n i) []).2 = true ∧
    finalState (roundsN h n i) (round h (roundsN h n i) []).2 = true :=
  ⟨final_roundsN hf n, final_round_obs (final_roundsN hf n)⟩

/-! ### non-vacuity: three replicas with slot 1 (desired 0,2,3), partition 2, two revisions, a foreign pod -/

def exH : Hashing := { nameOf := fun d c => d ++ "-" ++ toString c, hashNumOf := fun _ _ => none }

def exPod (k : Nat) (o : Int) (rev : String) : CPod :=
  { name := canonicalName "web" o, owner := .self, selMatch := true, member := true,
    pod := { id := k, ord := o, phase := .running, ready := true, terminating := false, rev := rev, idOk := true, stOk := true } }

def exWorld : SyncIn :=
  { setName := "web", paused := false, selectorOk := true,
    view := { replicas := some 3, slots := [1], parallel := true, strat := .rolling, ru := some (some 2), deleting := false,
              generation := 4, stCurrentReplicas := 1 },
    stored := { replicas := 3, ready := 3, current := 1, updated := 2, currentRev := "web-a", updateRev := "web-b", observedGen := 4 },
    collisionCount := none, historyLimit := some 1, template := "B",
    fresh := { gone := false, uidOk := true, deleting := false },
    store := [ { name := "web-a", number := 1, ctime := 0, data := "A", hashNum := none, owner := .self, selMatch := true, marker := false },
               { name := "web-b", number := 2, ctime := 0, data := "B", hashNum := none, owner := .self, selMatch := true, marker := false } ],
    pods := [ exPod 0 0 "web-a", exPod 1 2 "web-b", exPod 2 3 "web-b",
              { name := "other", owner := .other, selMatch := true, member := false,
                pod := { id := 3, ord := -1, phase := .pending, ready := false, terminating := false, rev := "", idOk := true, stOk := true } } ] }

example : Final exH exWorld := by decide +kernel

/-- `Final` is not implied by the target state alone: the same pods with a stale `status.updatedReplicas` are in
    `finalState` but the reconcile writes the status -/
example : Final exH { exWorld with stored := { exWorld.stored with updated := 1 } } = False := by
  simp only [eq_iff_iff, iff_false]; decide +kernel

/-! ## Part 2 — the premises are invariant (progress lemmas (a) and (b); all worlds, no size bound, ANY fault plan)

`settle` is the fairness step; `round h i plan` is `settle; sync (with the fault plan); apply the writes that took effect`.
The state right after a round is not inside `wfWorld` (a pod created in the round has no phase yet), the state after the next
fairness step is. The revision clause of `wfWorld` looks at the next eight probe names only and is NOT inductive (the collision
count can move past them: `wf_probe_clause_not_inductive` below); `RevProbeFree` is its inductive form (no revision that the
listing cannot see sits on ANY later probe name; trivially true when every stored revision is listed). -/

/-- no revision that `ListRevisions` cannot see sits on a name `createControllerRevision` may still probe -/
abbrev RevProbeFree (h : Hashing) (i : SyncIn) : Prop := Asts.C02p.RevProbeFree h i

/-- (a) the fairness step keeps a world inside the premises. -/
theorem C02_settle_wf (h : Hashing) (i : SyncIn) (hw : wfWorld h i = true) : wfWorld h (settle i) = true :=
  wfWorld_settle h i hw

/-- (a) the fairness step is idempotent — when no two pod objects share a name (object names are unique in a namespace;
    the insertion sort of `settle` reverses the order of equal names, see the `example` below). -/
theorem C02_settle_idempotent (i : SyncIn) (hn : (i.pods.map (·.name)).Nodup) : settle (settle i) = settle i :=
  settle_idem i hn

/-- (b) **a round keeps a world inside the premises — whatever the fault plan** (this is also the "partial work is
    harmless" half of C09: after a reconcile that was cut short by any failing call, the world, once settled, is again a
    world C02 speaks about). -/
theorem C02_round_wf (h : Hashing) (i : SyncIn) (plan : List Fault) (hw : wfWorld h i = true) (hp : RevProbeFree h i) :
    wfWorld h (settle (round h i plan).1) = true ∧ RevProbeFree h (settle (round h i plan).1) :=
  wf_round h i plan hw hp

/-- `RevProbeFree` holds when every stored revision is visible to the listing. -/
theorem C02_probeFree_of_visible (h : Hashing) (i : SyncIn)
    (hv : ∀ r ∈ i.store, r.owner ≠ .other ∧ (r.selMatch = true ∨ r.marker = true)) : RevProbeFree h i := by
  intro r hr
  left
  obtain ⟨h1, h2⟩ := hv r hr
  unfold visB
  simp only [Bool.and_eq_true, bne_iff_ne, ne_eq, Bool.or_eq_true]
  exact ⟨h1, h2⟩

/-- structure of a sync under any fault plan: every action comes from `updateStatefulSet` on this set's view, invisible
    revisions are never created or renamed, and a written status carries a collision count that did not go down -/
theorem C02_sync_structure (h : Hashing) (i : SyncIn) (plan : List Fault) :
    (∀ a ∈ (syncF h i plan).acts, ∃ cur upd pods f, a ∈ (updateStatefulSet i.view cur upd pods f).1.acts) ∧
    StoreLe i.store (syncF h i plan).store ∧
    ((syncF h i plan).status.isSome = true → ∃ c, (syncF h i plan).cc = some c ∧ i.collisionCount.getD 0 ≤ c) :=
  ⟨(syncF_ok h i plan).acts, (syncF_ok h i plan).store, (syncF_ok h i plan).cc⟩

/-! ### findings recorded as checked examples -/

private def dupPod (k : Nat) (rev : String) : CPod :=
  { name := "web-0", owner := .self, selMatch := true, member := true,
    pod := { id := k, ord := 0, phase := .running, ready := true, terminating := false, rev := rev, idOk := true, stOk := true } }

/-- two pods with one name: `settle` is not idempotent (the hypothesis of `C02_settle_idempotent` is needed) -/
theorem settle_not_idempotent_with_duplicate_names :
    (settle (settle { exWorld with pods := [dupPod 0 "a", dupPod 1 "b"] })).pods ≠
      (settle { exWorld with pods := [dupPod 0 "a", dupPod 1 "b"] }).pods := by decide +kernel

private def cxH : Hashing := { nameOf := fun _ c => "n" ++ toString c, hashNumOf := fun _ _ => none }
private def cxVis (k : Nat) : Rev :=
  { name := "n" ++ toString k, number := k + 1, ctime := 0, data := "X" ++ toString k, hashNum := none, owner := .self,
    selMatch := true, marker := false }
private def cxWorld : SyncIn :=
  { setName := "web", paused := false, selectorOk := true,
    view := { replicas := some 0, slots := [], parallel := true, strat := .rolling, ru := some (some 0), deleting := false,
              generation := 1, stCurrentReplicas := 0 },
    stored := {}, collisionCount := none, historyLimit := some 10, template := "T",
    fresh := { gone := false, uidOk := true, deleting := false },
    store := [cxVis 0, cxVis 1, cxVis 2, cxVis 3, cxVis 4, cxVis 5,
              { name := "n9", number := 1, ctime := 0, data := "Z", hashNum := none, owner := .other, selMatch := true, marker := false }],
    pods := [] }

/-- **the eight-probe clause of `wfWorld` is not inductive**: six listed revisions occupy the probe names 0..5, a foreign
    revision sits on probe name 9; the world is inside the premises, the round creates the revision at collision count 6
    (and converges), and the settled result is outside `wfWorld` because probe name 9 is now among the next eight. -/
theorem wf_probe_clause_not_inductive :
    wfWorld cxH cxWorld = true ∧ wfWorld cxH (settle (round cxH cxWorld []).1) = false := by decide +kernel

private def cyH : Hashing := { nameOf := fun _ _ => "x", hashNumOf := fun _ _ => none }
private def cyWorld : SyncIn :=
  { cxWorld with store := [{ name := "x", number := 1, ctime := 0, data := "Z", hashNum := some 5, owner := .self,
                             selMatch := true, marker := false }] }

/-- **convergence needs a premise on the hashing that `wfWorld` does not state**: with a hash function whose probe names all
    coincide with a listed revision recording other data, the sync of a world inside `wfWorld` ends in error (the model gives
    up after `|store| + 8` probes; the Go loop never ends) and leaves the store, the status and the collision count as they were, with no pod and no pod action — so every later
    round does the same and the run never converges (`C02converges` evaluates to false on it). The real hash (FNV of
    template and collision count) makes the probe names differ. -/
theorem degenerate_hashing_never_converges :
    wfWorld cyH cyWorld = true ∧ (syncF cyH (settle cyWorld) []).outcome = .err ∧
    (settle (round cyH cyWorld []).1).store = (settle cyWorld).store ∧
    (settle (round cyH cyWorld []).1).stored = (settle cyWorld).stored ∧
    (settle (round cyH cyWorld []).1).collisionCount = (settle cyWorld).collisionCount ∧
    (syncF cyH (settle cyWorld) []).acts = [] ∧ cyWorld.pods = [] := by decide +kernel

/-! ## Part 3 — convergence under both pod management policies (progress lemmas (c), (d) and the bound), for "normal" worlds

A world is **normal** (`NormC h i`, decidable reading `normCB`) when: the spec is valid (as in `Final`), the strategy is
OnDelete or the `rollingUpdate` block with a partition `≥ 0` is present (the legacy boundary mode is excluded), every pod
object in the list belongs to the set (owned, member, selector, canonical name, `0 ≤ ordinal`, storage matches,
admitted), ordinals are pairwise distinct, the revisions are quiet (the newest listed revision records the template with a
compatible hash label; no listed revision is an orphan), sizes are within the model's id scheme (`|pods|, replicas ≤ freshId
= 10^6`; `roomB`: extra pods + replicas `≤ freshId`) and the uncached GET finds the set.
Pods may be missing, Failed/Succeeded, unready, terminating, outdated, lacking identity, extra (outside the desired set), in
any number; the revision history may be of any length (truncation is part of the proof). Under OrderedReady (`normOB`) no
Failed/Succeeded pod lies outside the desired set (the exclusion the property itself makes). This is the state the worlds
of the `world` engine are in after their first rounds (adoption, creation of the update revision): 77% of the generated
worlds inside `wfWorld`; the rest are the legacy boundary mode (22%) and worlds with pods the set cannot claim (1%).

`muPods` is the measure of DESIGN §6 (pods part): per desired ordinal 1 for a vacancy, 2 for a Failed/Succeeded pod, 3 for a
pod RollingUpdate still has to replace, +1 for a missing identity, +1 while terminating; plus 2 per pod outside the desired
set. `nextW h j = settle (one round from j)`. The proof is policy-independent above an interface (`ActFacts`: what a
reconcile may delete and create; `Event`: a create, a delete of a listed pod, or a useful identity update) that both policies
are shown to satisfy (`par_class`, `mono_class`). -/

/-- the decidable readings put the settled world in the policy's class -/
theorem C02_parallel_class_of_normB (h : Hashing) (i : SyncIn) (hb : normB h i = true) : ParK h (settle i) := parK_of_normB hb
theorem C02_ordered_class_of_normOB (h : Hashing) (i : SyncIn) (hb : normOB h i = true) : MonoK h (settle i) := monoK_of_normOB hb

/-- both policies are policy classes: closed under rounds, the reconcile ends `.ok` with calls satisfying `ActFacts`, and an
    `Event` happens whenever the pods still need work -/
theorem C02_policy_class_parallel (h : Hashing) : PolicyClass h (ParK h) := par_class h
theorem C02_policy_class_ordered (h : Hashing) : PolicyClass h (MonoK h) := mono_class h

/-- **(c) one round** from a normal, settled world, given the policy interface: the sync succeeds, the next settled world
    is again normal and settled, the store only loses unused history beyond the limit, and the pods are, up to order and
    ids, `rawNext` — the pods no delete hit (identity repaired where an update was issued) plus one new Running/Ready pod
    per create. -/
theorem C02_round (h : Hashing) (j : SyncIn) (hs : NSC h j) (hp : Pol hs.norm) :
    (syncF h j []).outcome = .ok ∧ NSC h (nextW h j) ∧ KeyPerm (nextW h j).pods (rawNext hs.norm) ∧
    (nextW h j).store = j.store.filter hs.norm.keep :=
  ⟨(applySync_normC h j hs.norm hp.ok).2, nextW_ns hs hp, nextW_pods hs hp, nextW_store hs hp⟩

/-- (c) Parallel, spelled out: every desired ordinal that was vacant or held a Failed/Succeeded pod gets a create, every pod
    outside the desired set and every Failed/Succeeded pod in range is deleted, and a live pod in range is deleted only
    when it is the one pod the update walk takes down (`delHits_iff`, `create_mem_iff` for the exact statements). -/
theorem C02_round_parallel_calls (h : Hashing) (j : SyncIn) (hs : NSC h j) (hpar : j.view.parallel = true)
    (hpart : PartOk j.view) :
    hs.norm.recon.1.acts = actsOf j.view hs.norm.curRev.name hs.norm.updRev.name (bOf j) (EOf j) j.pods ∧
    ActFacts j.view hs.norm.curRev.name hs.norm.updRev.name (bOf j) (EOf j) j.pods
      (actsOf j.view hs.norm.curRev.name hs.norm.updRev.name (bOf j) (EOf j) j.pods) :=
  ⟨par_recon_acts hs hpar, par_facts hs hpart⟩

/-- (c) OrderedReady, spelled out: the reconcile issues `monoActsOf` — identity updates up to the first desired ordinal
    that needs a pod, which it fills (after deleting a Failed/Succeeded occupant) and stops; if none needs one, it deletes
    the highest pod outside the desired set; if there is none either, the update walk takes one outdated pod down. -/
theorem C02_round_ordered_calls (h : Hashing) (j : SyncIn) (hk : MonoK0 h j) :
    hk.1.norm.recon.2 = .ok ∧
    hk.1.norm.recon.1.acts = monoActsOf j.view hk.1.norm.curRev.name hk.1.norm.updRev.name (bOf j) (EOf j) j.pods :=
  recon_mono hk

/-- **(d) the measure**: it never goes up, and it goes down whenever an `Event` happens — which both policies guarantee
    while the pods still need work (`PolicyClass.progress`). -/
theorem C02_measure_step (h : Hashing) (j : SyncIn) (hs : NSC h j) (hp : Pol hs.norm) (hpart : PartOk j.view)
    (hf : ActFacts j.view hs.norm.curRev.name hs.norm.updRev.name (bOf j) (EOf j) j.pods hs.norm.recon.1.acts) :
    muPods (nextW h j) ≤ muPods j ∧
    (Event (bOf j) (EOf j) j.pods hs.norm.recon.1.acts → muPods (nextW h j) < muPods j) :=
  mu_stepC hs hp hpart hf

/-- **stage 2**: when the pods need no work, two more rounds end in `Final`: one writes the status if it differs (possibly
    completing the rolling update), one deletes the history this left unused. -/
theorem C02_pods_done_final (h : Hashing) (j : SyncIn) (hs : NSC h j) (hz : muPods j = 0) : Final h (nextW h (nextW h j)) :=
  done_final2 hs hz

/-- **Convergence, Parallel policy, normal worlds.** After at most `muPods (settle i) + 3` rounds the world is `Final` —
    hence (Part 1) in the promised state, and every later reconcile writes nothing. No bound on replicas, slots, pods or
    revisions beyond the model's id scheme; any history limit.

    `_partial`: the full statement wanted is `wfWorld h i → (hashing premise) → ∃ n ≤ roundBound i, Final h (roundsN h n i)`.
    This theorem covers the worlds that are already normal, without any premise on the hashing, on the names of stored
    revisions or on the set's name. The normalising first rounds (adoption of pods and revisions, creation or renumbering
    of the update revision) are Part 5 (`C02_converges_partial`), the legacy boundary mode is Part 4. -/
theorem C02_rounds_parallel_partial (h : Hashing) (i : SyncIn) (hb : normB h i = true) :
    ∃ n ≤ muPods (settle i) + 3, Final h (roundsN h n i) :=
  converge_parallel hb

/-- **Convergence, OrderedReady policy, normal worlds** (one ordinal per round; same measure, same bound).
    `_partial`: as for Parallel — normal worlds only; see Parts 4 and 5 for the rest. -/
theorem C02_rounds_ordered_partial (h : Hashing) (i : SyncIn) (hb : normOB h i = true) :
    ∃ n ≤ muPods (settle i) + 3, Final h (roundsN h n i) :=
  converge_ordered hb

/-- the hypotheses may be checked on the settled world (pods created in the previous round then count as admitted): this
    is how the `world` engine's worlds qualify from their second round on -/
theorem C02_rounds_parallel_settled_partial (h : Hashing) (i : SyncIn) (hb : normB h (settle i) = true) :
    ∃ n ≤ muPods (settle i) + 3, Final h (roundsN h n i) :=
  converge_of_class (par_class h) (parK_of_normB_settled hb)

theorem C02_rounds_ordered_settled_partial (h : Hashing) (i : SyncIn) (hb : normOB h (settle i) = true) :
    ∃ n ≤ muPods (settle i) + 3, Final h (roundsN h n i) :=
  converge_of_class (mono_class h) (monoK_of_normOB_settled hb)

/-- the number of rounds is within what the monitor `C02converges` allows (`roundBound` of `Spec/World.lean`) -/
theorem C02_bound_within_monitor (i : SyncIn) : muPods (settle i) + 3 ≤ roundBound i := mu_le_roundBound i

/-- the policy-independent form: any world whose settled form lies in a policy class converges -/
theorem C02_rounds_of_class (h : Hashing) (K : SyncIn → Prop) (hK : PolicyClass h K) (i : SyncIn) (hk : K (settle i)) :
    ∃ n ≤ muPods (settle i) + 3, Final h (roundsN h n i) :=
  converge_of_class hK hk

/-! ### non-vacuity: normal worlds that need every kind of work

replicas 3 with slot 1 (desired 0,2,3), partition 0: ordinal 0 outdated and without identity, ordinal 2 Failed, ordinal 3
vacant, extra pods at 1 (a slot) and 7, a terminating pod at 9; history limit 0 with an unused old revision. -/

private def nPod (k : Nat) (o : Int) (ph : Phase) (rd tm : Bool) (rev : String) (idOk : Bool) : CPod :=
  { name := canonicalName "web" o, owner := .self, selMatch := true, member := true,
    pod := { id := k, ord := o, phase := ph, ready := rd, terminating := tm, rev := rev, idOk := idOk, stOk := true } }

def exNormal (par : Bool) : SyncIn :=
  { exWorld with
    view := { replicas := some 3, slots := [1], parallel := par, strat := .rolling, ru := some (some 0), deleting := false,
              generation := 5, stCurrentReplicas := 0 },
    historyLimit := some 0,
    store := [ { name := "web-0", number := 0, ctime := 0, data := "Z", hashNum := none, owner := .self, selMatch := true, marker := false },
               { name := "web-a", number := 1, ctime := 0, data := "A", hashNum := none, owner := .self, selMatch := true, marker := false },
               { name := "web-b", number := 2, ctime := 0, data := "B", hashNum := none, owner := .self, selMatch := true, marker := false } ],
    pods := [ nPod 0 0 .running false false "web-a" false, nPod 1 2 .failed false false "web-a" true,
              nPod 2 1 .pending false false "web-a" true, nPod 3 7 .running false false "web-b" true,
              nPod 4 9 .running true true "web-a" true ] }

example : normB exH (exNormal true) = true := by decide +kernel
example : normOB exH (exNormal false) = true := by decide +kernel
example : muPods (settle (exNormal true)) = 11 := by decide +kernel
example : Final exH (exNormal true) = False := by simp only [eq_iff_iff, iff_false]; decide +kernel

/-! ## Part 4 — the legacy boundary mode (strategy RollingUpdate, no `rollingUpdate` block)

Without the block the boundary between the revisions of NEW pods is `status.currentReplicas` (`newPodRev`: below it a new pod
gets the current revision, at or above it the update revision), and the update walk runs over every ordinal (partition 0).
A replacement pod may therefore come up at the OLD revision and be replaced again; the measure of Part 3 is not monotone here.

`muL` (legacy measure, `Proofs/C02_Defs.lean`): per desired ordinal — a vacancy weighs 1 when the pod created there will be at
the update revision AND every other desired ordinal holds a live pod (`onlyNeedy`), else 4; a Failed/Succeeded pod 5; a live pod
3 if outdated, +1 for a missing identity; plus 2 per pod outside the desired set. The key fact (`walk_bound_list` +
counter tracking `recon_par_cur_le` / `recon_mono_cur_le`): when the update walk deletes the pod at ordinal `t` and the current
revision differs from the update revision, the status it leaves has `currentReplicas ≤ t` — every pod at an ordinal above `t`
is at the update revision and was not counted — so the pod created at `t` in the next round is at the update revision
(`next_good_rev`) and the vacancy the walk leaves weighs 1, not 4. `LPol` is the interface a policy satisfies in this mode
(walk-free calls `A` obeying `ActFacts`, plus at most one walk deletion with the bound), `LEvent` the progress event,
`muL_step` the policy-independent descent; `lpar_pol`/`lpar_progress`/`lpar_next` and `lmono_*` instantiate it.
The measure was checked before the proof on the ≈950 legacy worlds of the `world` engine and on an exhaustive enumeration
(4 ordinals, 69 678 worlds): strictly decreasing until 0, `Final` two rounds later. -/

/-- normal in the legacy boundary mode (either policy), decidable reading -/
abbrev normLB (h : Hashing) (i : SyncIn) : Bool := Asts.C02p.normLB h i

/-- **the walk's bound**: the counted pods at the current revision, minus the walk's own decrement, fit below the walk's
    target (ordinals `≥ 0`, strictly ascending; partition 0) -/
theorem C02_legacy_walk_bound (v : SetView) (cur upd : String) (R : List (Int × Pod)) (hpart : partOf v = 0)
    (hs : (R.map (·.1)).Pairwise (· < ·)) (h0 : ∀ x ∈ R, 0 ≤ x.1) {t : Int} {q : Pod}
    (ht : walkTarget v upd R = some (t, q)) (hne : cur ≠ upd) :
    Asts.L1c.cnt (Asts.L1c.liveAt cur) (R.map (·.2)) - tgtDelta cur (some (t, q)) ≤ t :=
  walk_bound_list v cur upd R hpart hs h0 ht hne

/-- **the legacy measure**: it never goes up, and it goes down whenever a legacy event happens (a create, a delete of a
    listed pod, a useful identity update, or the walk's deletion) -/
theorem C02_legacy_measure_step (h : Hashing) (j : SyncIn) (hs : NSC h j) (A : List Action) (tg : Option (Int × Pod))
    (hl : LPol hs A tg) : muL (nextW h j) ≤ muL j ∧ (LEvent j A tg → muL (nextW h j) < muL j) :=
  muL_step hl

/-- the legacy measure dominates the measure of Part 3: when it is 0 the pods need no work (stage 2 of Part 3 applies) -/
theorem C02_legacy_measure_dominates (h : Hashing) (j : SyncIn) (hs : NSC h j) : muPods j ≤ muL j := muPods_le_muL hs

/-- **Convergence in the legacy boundary mode, both policies, normal worlds.**
    `_partial`: normal worlds only (as `C02_rounds_parallel_partial`); the normalising first rounds are Part 5. -/
theorem C02_rounds_legacy_partial (h : Hashing) (i : SyncIn) (hb : normLB h i = true) :
    ∃ n ≤ muL (settle i) + 3, Final h (roundsN h n i) :=
  converge_legacy hb

theorem C02_rounds_legacy_settled_partial (h : Hashing) (i : SyncIn) (hb : normLB h (settle i) = true) :
    ∃ n ≤ muL (settle i) + 3, Final h (roundsN h n i) :=
  converge_legacy_settled hb

/-- within the monitor's bound -/
theorem C02_legacy_bound_within_monitor (i : SyncIn) : muL (settle i) + 3 ≤ roundBound i := muL_le_roundBound i

/-- the same outdated world as `exNormal`, without the `rollingUpdate` block, `status.currentRevision = web-a` with three
    replicas counted: replacements below the boundary come up at the OLD revision first -/
def exLegacy (par : Bool) : SyncIn :=
  { exNormal par with
    view := { (exNormal par).view with ru := none, stCurrentReplicas := 3 },
    stored := { (exNormal par).stored with currentRev := "web-a", current := 3 } }

example : normLB exH (exLegacy true) = true := by decide +kernel
example : normLB exH (exLegacy false) = true := by decide +kernel
example : Final exH (exLegacy true) = False := by simp only [eq_iff_iff, iff_false]; decide +kernel

/-! ## Part 5 — the normalising first rounds, and the general theorem

A world inside `preNB` (`Proofs/C02_BDefs.lean`) differs from a normal one in that
* pod objects may be **orphans** (member of the set by name, selector matches, controlled by nobody);
* listed revisions may be orphans (adopted in the first sync, marker-carrying ones label-synced first);
* the **update revision may not exist yet** (created on the first free probe name, after walking past names held by
  revisions recording something else — the collision count moves and is persisted with the status), or exist as an older
  revision (renumbered to `nextRevision`);
* any update strategy, both policies, the legacy boundary mode included.

The argument: the first sync does to the world exactly what the sync of the **prepared world** `prepW h j` does — the same
world with the revision stages already run (`prepStore`, `prepCC`) and every pod owned — up to who owns the pods
(`prep_sim`: `ownS (applySync j (syncF j)) = applySync (prepW j) (syncF (prepW j))`). The prepared world is normal
(`prepW_norm`), so Parts 3/4 apply to it. Owners: the claim stage adopts every orphan (`claim_nil`, `claimLog_owns`); the
Update call of `UpdateStatefulPod` writes back the cached copy, so a pod adopted AND identity-repaired in the same sync is an
orphan again afterwards (`applyActs`), but then its identity is in order (`applyActs_ownP`), identity updates only go to pods
lacking identity (`par_update_src`, `mono_update_src`), hence the next sync adopts it for good (`applyActs_noOrphan`): from
the second round on no pod is an orphan (`mid_rounds`), and the rounds of the world ARE the rounds of the prepared world. The
normalising work costs no extra round: the bound is the measure of the prepared world + 3.

The premises on the hashing (`hashOkB`, `labelsOkB`) are explicit; the two theorems below show what they exclude is real. -/

/-- the world with the revision work done and every pod owned -/
abbrev prepW (h : Hashing) (j : SyncIn) : SyncIn := Asts.C02p.prepW h j
/-- the class of the general theorem, decidable reading -/
abbrev preNB (h : Hashing) (i : SyncIn) : Bool := Asts.C02p.preNB h i
/-- what `preNB` asks beyond `wfWorld` -/
abbrev extraB (h : Hashing) (i : SyncIn) : Bool := Asts.C02p.extraB h i

/-- **the prepared world is normal** (whatever adoption, creation or renumbering the first sync has to do) -/
theorem C02_prepared_normal (h : Hashing) (i : SyncIn) (hb : preCB h i = true) (hroom : roomB i = true) :
    NSC h (prepW h (settle i)) :=
  prep_nsc (preC_settle hb).1 (preC_settle hb).2 hroom

/-- **the first sync, seen with the owners forgotten, is the sync of the prepared world** -/
theorem C02_first_sync_simulation (h : Hashing) (i : SyncIn) (hb : preCB h i = true) (hroom : roomB i = true)
    (hok : (C02_prepared_normal h i hb hroom).norm.recon.2 = .ok) :
    ownS (applySync (settle i) [] (syncF h (settle i) [])) =
      applySync (prepW h (settle i)) [] (syncF h (prepW h (settle i)) []) ∧
    (syncF h (settle i) []).outcome = .ok := by
  obtain ⟨hp, hr⟩ := preC_settle hb
  obtain ⟨G, upd, cc, hpick, hcc⟩ := pick_of_prem hp.names hr
  obtain ⟨h1, h2, _⟩ := prep_sim hp hpick hcc (C02_prepared_normal h i hb hroom).norm hok
  exact ⟨h1, h2⟩

/-- **general convergence**: from any world inside `preNB`, within the measure of the prepared world + 3 rounds -/
theorem C02_converges_preNB (h : Hashing) (i : SyncIn) (hb : preNB h i = true) :
    ∃ n ≤ (if legacyB i.view then muL (prepW h (settle i)) else muPods (prepW h (settle i))) + 3,
      Final h (roundsN h n i) :=
  converge_general hb

/-- **C02, convergence**: a world inside the premises of the property (`wfWorld`) and inside `extraB` reaches `Final` —
    the promised state (Part 1: `C02_final_is_target`), after which every reconcile writes nothing (`C02_quiescent`,
    `C02_quiet_forever`) — within the number of rounds the monitor `C02converges` allows.

    `_partial`: the statement wanted is for every world inside `wfWorld` under a premise on the hashing alone. `extraB` adds,
    beyond the hashing premises `hashOkB` (a visible revision records the template, or the probe walk ends on a free name
    having passed only revisions that record something else, within `|store| + 8` probes, and when the collision count
    moves the stored status does not already name the new revision) and `labelsOkB` (no unparsable hash label next to a
    mismatching parsable one among the revisions that record the template):
    (i) every pod object is a member of the set — this case is closed in Part 6 (`C02_converges`): pod objects that merely
    carry the labels (non-members, released in the first sync) or are controlled by somebody else are inert, and `Final`
    holds with them in the list (1 % of the generated `wfWorld` worlds);
    (ii) `spec.replicas` is set, storage of every pod matches (`stOk`; the model never repairs it), one pod object per
    ordinal — outside these the model does not reach `Final` at all;
    (iii) sizes within the model's id scheme (`|pods|`, replicas, room `≤ 10^6`), distinct
    names of stored revisions, no colon in the set's name (log entries are colon-separated). -/
theorem C02_converges_partial (h : Hashing) (i : SyncIn) (hw : wfWorld h i = true) (hx : extraB h i = true) :
    ∃ n ≤ roundBound i, Final h (roundsN h n i) := by
  obtain ⟨n, hn, hf⟩ := converge_general (preNB_of_wf hw hx)
  exact ⟨n, le_trans hn (general_le_roundBound h i), hf⟩

/-! ### non-vacuity and the premises on the hashing -/

private def oPod (k : Nat) (o : Int) (own : Owner) (ph : Phase) (rd : Bool) (rev : String) (idOk : Bool) : CPod :=
  { name := canonicalName "web" o, owner := own, selMatch := true, member := true,
    pod := { id := k, ord := o, phase := ph, ready := rd, terminating := false, rev := rev, idOk := idOk, stOk := true } }

/-- replicas 3 (desired 0,1,2), OrderedReady, legacy boundary mode; template "T" has no revision yet and the first two
    probe names are taken by revisions recording something else (one of them an orphan carrying only the marker); the pod
    at 0 is an orphan without identity, the pod at 1 an orphan, ordinal 2 is vacant, an extra orphan sits at 5 -/
def exPre : SyncIn :=
  { exWorld with
    view := { replicas := some 3, slots := [], parallel := false, strat := .rolling, ru := none, deleting := false,
              generation := 5, stCurrentReplicas := 2 },
    stored := { replicas := 2, ready := 2, current := 2, updated := 0, currentRev := "T-1", updateRev := "T-1", observedGen := 4 },
    template := "T", historyLimit := some 0,
    store := [ { name := "T-0", number := 1, ctime := 0, data := "old0", hashNum := none, owner := .none, selMatch := false, marker := true },
               { name := "T-1", number := 2, ctime := 0, data := "old1", hashNum := none, owner := .self, selMatch := true, marker := false } ],
    pods := [ oPod 0 0 .none .running true "T-1" false, oPod 1 1 .none .running true "T-1" true,
              oPod 2 5 .none .running true "T-1" true ] }

example : wfWorld exH exPre = true := by decide +kernel
example : extraB exH exPre = true := by decide +kernel
example : preNB exH exPre = true := by decide +kernel
example : (prepW exH (settle exPre)).collisionCount = some 2 := by decide +kernel

private def lmH : Hashing := { nameOf := fun _ c => "n" ++ toString c, hashNumOf := fun _ _ => some 7 }
private def lmWorld : SyncIn :=
  { setName := "web", paused := false, selectorOk := true,
    view := { replicas := some 0, slots := [], parallel := true, strat := .rolling, ru := some (some 0), deleting := false,
              generation := 1, stCurrentReplicas := 0 },
    stored := { replicas := 0, ready := 0, current := 0, updated := 0, currentRev := "n0", updateRev := "n0", observedGen := 1 },
    collisionCount := some 0, historyLimit := some 10, template := "T",
    fresh := { gone := false, uidOk := true, deleting := false },
    store := [{ name := "n0", number := 1, ctime := 0, data := "T", hashNum := some 5, owner := .self, selMatch := true, marker := false }],
    pods := [] }

/-- **a hash label that does not match keeps the controller busy for ever**: a listed revision sits on the first probe
    name and records the template, under a hash label (5) other than the one computed now (7). `EqualRevision` does not find
    it, `createControllerRevision` runs into it (AlreadyExists), reads it back, finds the same data and uses it — in every
    sync: the world is inside `wfWorld`, the sync is successful but not silent (one `create:rev` call), writes no status,
    leaves the store as it was and touches no pod — so every later round does the same and the run never goes quiet
    (`#eval`: the monitor `C02converges` is false on it). `hashOkB` excludes it; with the real hash the label is determined
    by the name. -/
theorem label_mismatch_never_quiet :
    wfWorld lmH lmWorld = true ∧ hashOkB lmH lmWorld = false ∧
    (syncF lmH (settle lmWorld) []).log =
      ["list:revs", "list:revs", "list:revs", "list:revs", "create:rev:n0", "get:rev:n0"] ∧
    (syncF lmH (settle lmWorld) []).outcome = .ok ∧ (syncF lmH (settle lmWorld) []).status = none ∧
    (syncF lmH (settle lmWorld) []).store = lmWorld.store ∧ (syncF lmH (settle lmWorld) []).acts = [] ∧
    lmWorld.pods = [] := by
  refine ⟨by decide +kernel, by decide +kernel, by decide +kernel, by decide +kernel, by decide +kernel, by decide +kernel,
    by decide +kernel, rfl⟩

private def ntWorld : SyncIn :=
  { lmWorld with
    stored := { replicas := 0, ready := 0, current := 0, updated := 0, currentRev := "b", updateRev := "b", observedGen := 1 },
    store := [{ name := "a", number := 1, ctime := 0, data := "T", hashNum := none, owner := .self, selMatch := true, marker := false },
              { name := "b", number := 2, ctime := 0, data := "T", hashNum := some 5, owner := .self, selMatch := true, marker := false }] }

/-- **`EqualRevision` is not transitive** (an unparsable hash label is a wildcard): revision `a` (label unparsable) equals
    the fresh revision (label 7) and equals the newest revision `b` (label 5), which does not equal the fresh one; the
    controller uses `b` as the update revision and is quiet — silent successful syncs, the monitor is satisfied — in a state
    where `status.updateRevision` names a revision that is not `EqualRevision` to the template's: not the `Final` of this
    file (which asks the newest revision to equal the fresh one). `labelsOkB` excludes it. -/
theorem equalRevision_not_transitive_quiet_not_final :
    wfWorld lmH ntWorld = true ∧ labelsOkB lmH ntWorld = false ∧
    (syncF lmH (settle ntWorld) []).log = ["list:revs", "list:revs", "list:revs", "list:revs"] ∧
    (syncF lmH (settle ntWorld) []).outcome = .ok ∧ (syncF lmH (settle ntWorld) []).upd = "b" ∧
    finalB lmH (settle ntWorld) = false := by
  refine ⟨by decide +kernel, by decide +kernel, by decide +kernel, by decide +kernel, by decide +kernel, by decide +kernel⟩

/-! ## Part 6 — pod objects that are not members of the set

`wfWorld` lets the pod list hold objects that are no members of the set (their names do not parse as `<set>-<ordinal>`):
label carriers the set controls (released in the first sync: `claimDecision` = release, one `patch:pod:` call), orphans that
merely carry the labels (ignored), pods controlled by somebody else (ignored). **`Final` can hold with such objects in the
list** — its pods clause asks of an orphan only that it is not adoptable and nothing of a pod controlled by somebody else —
so the gap (i) of `C02_converges_partial` was a gap of the proof, not of the definition.

The proof: the reconcile sees the claimed pods only, and the claimed pods are exactly the members (`claim_nilM`). `mOf x` is
the world with the members only, **pod ids as they are** (positions in the whole list; for that the normal-world theory was
re-based from `IdPos`, ids = positions, to `IdOk`, ids distinct and below the ids of new pods). One sync + apply of `x` has
the same status, store and collision count as one sync + apply of the prepared members-only world, and its pod list is the
old one with the claim stage's patches (`norm1`: member orphans owned, non-members released) and the reconcile's calls
applied (`prep_simM`). Restricted to the members and with the owners forgotten, the next world is the next world of the
normal-world theory **up to pod ids and order** (`StepRaw.keyPerm`; ids are positions in the whole list, so the two are never
equal) — therefore the measure argument runs on the real worlds themselves, transferring class membership, measure, `Fix`
and `Final` along that relation at every step (`ConvClass`, `conv_stg`), instead of on a shadow run. Non-members stay
non-members under their names and are not the set's from the second world on (`StepRaw.inert`, `StepRaw.nmNames`);
`final_of_Y` puts them back under `Final`.

What `extraMB` asks about non-members (all true of real API objects, but `member`, `name` and `pod.ord` are independent
fields of the model): pod names are pairwise distinct; a non-member does not carry the canonical name of a DESIRED ordinal
(such a pod would block the create for ever while the model lets the create succeed); a non-member the set controls has no
colon in its name (the model reads the release back from a colon-separated log entry). All 4 325 generated worlds inside
`wfWorld` are inside `preNMB`. -/

/-- the class of the general theorem with non-members allowed, decidable reading -/
abbrev preNMB (h : Hashing) (i : SyncIn) : Bool := Asts.C02p.preNMB h i
/-- what `preNMB` asks beyond `wfWorld`: `extraB` with its clause (i) "every pod object is a member" replaced by the three
    clauses on non-members above, the other clauses speaking about the members -/
abbrev extraMB (h : Hashing) (i : SyncIn) : Bool := Asts.C02p.extraMB h i

/-- **one sync + apply in a world with non-members**, against the prepared members-only world: everything but the pod
    list agrees -/
theorem C02_sync_with_nonmembers (h : Hashing) (x : SyncIn) (G : List Rev) (upd : Rev) (cc : Int) (hp : PreM x)
    (hpick : PickOut h x.template (x.collisionCount.getD 0) (adoptS x.store) G upd cc)
    (hcc : cc ≠ x.collisionCount.getD 0 → x.stored.updateRev ≠ upd.name)
    (hn : NormC h (Asts.C02p.prepW h (mOf x))) (hok : hn.recon.2 = .ok) :
    ({ applySync x [] (syncF h x []) with pods := [] } : SyncIn) =
      { applySync (Asts.C02p.prepW h (mOf x)) [] (syncF h (Asts.C02p.prepW h (mOf x)) []) with pods := [] } ∧
    (syncF h x []).outcome = .ok ∧
    (applySync x [] (syncF h x [])).pods =
      reindex (sortPods (applyActs x.setName x.pods (x.pods.map norm1) hn.recon.1.acts)) :=
  ⟨(prep_simM hp hpick hcc hn hok).1, (prep_simM hp hpick hcc hn hok).2.1, (prep_simM hp hpick hcc hn hok).2.2.1⟩

/-- **non-members stay inert**: after a round no non-member is the set's -/
theorem C02_nonmembers_inert (h : Hashing) (K : SyncIn → Prop) (C : ConvClass h K) (x : SyncIn) (hs : Stg h K x) :
    ∀ c ∈ (nextW h x).pods, c.member = false → c.owner ≠ .self :=
  (stg_next C hs).2.2.2.2.1.2

/-- **`Final` of the members-only view is `Final` of the world**, once every member is owned and no other pod object is
    the set's -/
theorem C02_final_of_members (h : Hashing) (z : SyncIn) (hf : Final h (Y z)) (hz : PTwo z) : Final h z := final_of_Y hf hz

/-- general convergence, non-members allowed: within the measure of the prepared members-only world + 3 rounds -/
theorem C02_converges_preNMB (h : Hashing) (i : SyncIn) (hb : preNMB h i = true) :
    ∃ n ≤ (if legacyB i.view then muL (Asts.C02p.prepW h (mOf (settle i))) else muPods (Asts.C02p.prepW h (mOf (settle i)))) + 3,
      Final h (roundsN h n i) :=
  converge_generalM hb

/-- **C02, convergence**: every world inside the premises of the property (`wfWorld`) and inside `extraMB` reaches `Final`
    — the promised state, after which every reconcile writes nothing — within the number of rounds the monitor allows.
    Pod objects that are no members of the set (label carriers, foreign pods, non-member orphans) included.

    What `extraMB` asks beyond `wfWorld` (nothing of it is a gap of the proof any more; each clause is either needed in the
    model or a fact about API objects the model's independent fields do not enforce):
    * the hashing premises `hashOkB`, `labelsOkB` (needed: `label_mismatch_never_quiet`, `degenerate_hashing_never_converges`,
      `equalRevision_not_transitive_quiet_not_final`);
    * `spec.replicas` is set, storage of every member matches, one member per ordinal (outside these the model does not
      reach `Final`);
    * pod names pairwise distinct, names of stored revisions pairwise distinct (API objects);
    * no non-member under the canonical name of a desired ordinal; no colon in the set's name nor in the name of a non-member
      the set controls (model encoding);
    * sizes within the model's id scheme: non-members + members outside the desired set + replicas `≤ 10^6` (new pods get the
      ids `10^6 + ordinal`; `|pods| ≤ 10^6` and `replicas ≤ 10^6` follow). No int32 bound on ordinals, replicas or slots is
      needed any more (the first-unhealthy scan no longer depends on the `MaxInt32` sentinel). -/
theorem C02_converges (h : Hashing) (i : SyncIn) (hw : wfWorld h i = true) (hx : extraMB h i = true) :
    ∃ n ≤ roundBound i, Final h (roundsN h n i) := by
  obtain ⟨n, hn, hf⟩ := converge_generalM (preNMB_of_wf hw hx)
  exact ⟨n, le_trans hn (generalM_le_roundBound h i), hf⟩

/-- `exPre` with three pod objects that are no members: a label carrier the set controls (released in the first sync), a
    pod controlled by somebody else, an orphan that merely carries the labels -/
def exPreM : SyncIn :=
  { exPre with
    pods := exPre.pods ++
      [ { name := "carrier", owner := .self, selMatch := true, member := false,
          pod := { id := 3, ord := -1, phase := .running, ready := true, terminating := false, rev := "", idOk := true, stOk := true } },
        { name := "foreign", owner := .other, selMatch := true, member := false,
          pod := { id := 4, ord := -1, phase := .pending, ready := false, terminating := false, rev := "", idOk := true, stOk := false } },
        { name := "stray", owner := .none, selMatch := true, member := false,
          pod := { id := 5, ord := -1, phase := .running, ready := true, terminating := false, rev := "", idOk := false, stOk := true } } ] }

example : wfWorld exH exPreM = true := by decide +kernel
example : extraMB exH exPreM = true := by decide +kernel
example : preNMB exH exPreM = true := by decide +kernel
example : extraB exH exPreM = false := by decide +kernel

end Asts.C02
