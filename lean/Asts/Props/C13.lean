import Asts.Spec.Sync

/-! # C13 — property theorems (under construction) -/
namespace Asts.C13

end Asts.C13
