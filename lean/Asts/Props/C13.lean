import Asts.Proofs.SY_b_C13Monitor

/-! # C13 — history is trimmed only beyond the limit and never loses a live revision

Property theorems only; lemmas are in `Asts/Proofs/SY_b_Revs.lean`, `SY_b_Truncate.lean`, `SY_b_Log.lean`, `SY_b_Sync.lean`,
`SY_b_SyncThms.lean`, `SY_b_Annotate.lean`, `SY_b_AdoptExact.lean`, `SY_b_ClaimExact.lean`, `SY_b_C13Pre.lean`,
`SY_b_C13Monitor.lean` (and `SY_b_Strings.lean`, sya-prover's `parseEntry` bridge).

`truncateF plan limit podRevs revs cur upd s` is the model (`Model/Sync`) of `truncateHistory` (stateful_set_control.go): `revs` is
the sorted listing `sortRevs (listRevisions store)`, `cur`/`upd` the resolved current and update revisions, `podRevs` the
revision labels of the claimed pods, `s` the API store + call log, `plan` the injected faults. Its API calls are logged as
strings `delete:rev:<name>`; `SYb.truncDeletes` is the structured twin (the revisions for which a Delete call is issued,
in order, a failed call being the last one) and `log_is_rendering` says the string log is exactly its rendering — all
other theorems are about the structured list. `SYb.historyOf podRevs revs cur upd` is the model's `history`: the listed
revisions owned by the set and named neither by `cur`, `upd` nor a pod label, in listing order.

Everything holds for every store, every limit (negative too), every pod-label list, every fault plan, no size bounds. -/
namespace Asts.C13
open Asts Asts.SYb

/-! ## the listing: each revision once, oldest first -/

/-- `ListRevisions` yields every name at most once (the double listing of a revision that carries both the template labels
    and the upgrade marker is gone), so each revision is counted once -/
theorem listing_names_distinct (store : List Rev) : ((listRevisions store).map (·.name)).Nodup :=
  listRevisions_names_nodup store

/-- what is listed is stored, selected (labels or marker) and not controlled by somebody else -/
theorem listing_sound (store : List Rev) (r : Rev) (h : r ∈ listRevisions store) :
    r ∈ store ∧ (r.selMatch = true ∨ r.marker = true) ∧ r.owner ≠ .other :=
  mem_listRevisions h

/-- `SortControllerRevisions` is a permutation -/
theorem sort_is_permutation (l : List Rev) : (sortRevs l).Perm l := sortRevs_perm l

/-- `revLt` — (revision number, creation time, name) lexicographically — is irreflexive, transitive and total on
    revisions with different names -/
theorem revLt_strict_total :
    (∀ a, revLt a a = false) ∧ (∀ a b c, revLt a b = true → revLt b c = true → revLt a c = true) ∧
    (∀ a b : Rev, a.name ≠ b.name → revLt a b = true ∨ revLt b a = true) :=
  ⟨revLt_irrefl, fun _ _ _ => revLt_trans, fun _ _ => revLt_total⟩

/-- the sorted listing is non-descending: nothing later is strictly older than something earlier -/
theorem sort_is_sorted (l : List Rev) : (sortRevs l).Pairwise (fun a b => revLt b a = false) := sortRevs_sorted l

/-- … and on distinct names strictly ascending -/
theorem sort_is_strictly_sorted (l : List Rev) (hn : (l.map (·.name)).Nodup) :
    (sortRevs l).Pairwise (fun a b => revLt a b = true) :=
  sorted_strict (sortRevs_sorted l) (sortRevs_names_nodup hn)

/-- the sorted listing the reconcile works on has distinct names -/
theorem sorted_listing_names_distinct (store : List Rev) : ((sortRevs (listRevisions store)).map (·.name)).Nodup :=
  sorted_listing_names_nodup store

/-! ## `truncateHistory` -/

/-- the string log of `truncateF` is the old log followed by `delete:rev:<name>` for the structured list of deletes -/
theorem log_is_rendering (plan : List Fault) (limit : Option Int) (podRevs : List String) (revs : List Rev) (cur upd : Rev)
    (s : RevSt) :
    (truncateF plan limit podRevs revs cur upd s).1.tr.log =
      s.tr.log ++ (truncDeletes plan limit podRevs revs cur upd s).map (fun r => s!"delete:rev:{r.name}") :=
  truncateF_log plan limit podRevs revs cur upd s

/-- **(1)** every Delete targets a listed revision that this set controls and that is neither the current nor the update
    revision nor named by the revision label of a pod -/
theorem deletes_only_own_unused (plan : List Fault) (limit : Option Int) (podRevs : List String) (revs : List Rev)
    (cur upd : Rev) (s : RevSt) (r : Rev) (h : r ∈ truncDeletes plan limit podRevs revs cur upd s) :
    r ∈ revs ∧ r.owner = .self ∧ r.name ∉ cur.name :: upd.name :: podRevs :=
  truncDeletes_mem h

/-- **(2)** no name is deleted twice, given a listing with distinct names … -/
theorem no_double_delete (plan : List Fault) (limit : Option Int) (podRevs : List String) (revs : List Rev)
    (cur upd : Rev) (s : RevSt) (hn : (revs.map (·.name)).Nodup) :
    ((truncDeletes plan limit podRevs revs cur upd s).map (·.name)).Nodup :=
  truncDeletes_names_nodup hn

/-- … which is what `sync` passes: the sorted `ListRevisions` of any store -/
theorem no_double_delete_listed (plan : List Fault) (limit : Option Int) (podRevs : List String) (store : List Rev)
    (cur upd : Rev) (s : RevSt) :
    ((truncDeletes plan limit podRevs (sortRevs (listRevisions store)) cur upd s).map (·.name)).Nodup :=
  truncDeletes_names_nodup (sorted_listing_names_nodup store)

/-- **(3a)** a Delete is issued only if more than `lim` unused revisions exist -/
theorem deletes_only_beyond_limit (plan : List Fault) (limit : Option Int) (podRevs : List String) (revs : List Rev)
    (cur upd : Rev) (s : RevSt) (h : truncDeletes plan limit podRevs revs cur upd s ≠ []) :
    ∃ lim, limit = some lim ∧ lim < ((historyOf podRevs revs cur upd).length : Int) :=
  truncDeletes_ne_nil h

/-- **(3b)** at most `#unused − lim` Deletes are issued (`lim.toNat`: a negative limit counts as 0) -/
theorem deletes_at_most_excess (plan : List Fault) (lim : Int) (podRevs : List String) (revs : List Rev)
    (cur upd : Rev) (s : RevSt) :
    (truncDeletes plan (some lim) podRevs revs cur upd s).length ≤ (historyOf podRevs revs cur upd).length - lim.toNat :=
  truncDeletes_length_le plan lim podRevs revs cur upd s

/-- (3b) over the integers, for the limits the API admits -/
theorem deletes_at_most_excess_int (plan : List Fault) (lim : Int) (hlim : 0 ≤ lim) (podRevs : List String) (revs : List Rev)
    (cur upd : Rev) (s : RevSt) (h : truncDeletes plan (some lim) podRevs revs cur upd s ≠ []) :
    ((truncDeletes plan (some lim) podRevs revs cur upd s).length : Int) ≤ (historyOf podRevs revs cur upd).length - lim := by
  have h1 := truncDeletes_length_le plan lim podRevs revs cur upd s
  obtain ⟨l, hl, hlt⟩ := truncDeletes_ne_nil h
  cases hl
  omega

/-- **(3c)** the deleted revisions are a prefix of the unused ones in listing order … -/
theorem deletes_are_prefix (plan : List Fault) (limit : Option Int) (podRevs : List String) (revs : List Rev)
    (cur upd : Rev) (s : RevSt) :
    truncDeletes plan limit podRevs revs cur upd s <+: historyOf podRevs revs cur upd :=
  truncDeletes_prefix_history plan limit podRevs revs cur upd s

/-- … hence, the listing being sorted, the oldest: no unused revision that is spared is strictly older (revision number,
    then creation time, then name) than one that is deleted -/
theorem deletes_are_oldest (plan : List Fault) (limit : Option Int) (podRevs : List String) (revs : List Rev)
    (cur upd : Rev) (s : RevSt) (hs : revs.Pairwise (fun a b => revLt b a = false)) (v r : Rev)
    (hv : v ∈ truncDeletes plan limit podRevs revs cur upd s) (hr : r ∈ historyOf podRevs revs cur upd)
    (hrn : r ∉ truncDeletes plan limit podRevs revs cur upd s) : revLt r v = false :=
  truncDeletes_oldest hs hv hr hrn

/-- for the listing `sync` passes: every deleted revision is strictly older than every spared unused one -/
theorem deletes_are_oldest_listed (plan : List Fault) (limit : Option Int) (podRevs : List String) (store : List Rev)
    (cur upd : Rev) (s : RevSt) (v r : Rev)
    (hv : v ∈ truncDeletes plan limit podRevs (sortRevs (listRevisions store)) cur upd s)
    (hr : r ∈ historyOf podRevs (sortRevs (listRevisions store)) cur upd)
    (hrn : r ∉ truncDeletes plan limit podRevs (sortRevs (listRevisions store)) cur upd s) : revLt v r = true :=
  truncDeletes_oldest_strict (sortRevs_sorted _) (sorted_listing_names_nodup store) hv hr hrn

/-- on success exactly the `#unused − lim` oldest were deleted (none if `#unused ≤ lim`) -/
theorem ok_deletes_exactly_excess (plan : List Fault) (lim : Int) (podRevs : List String) (revs : List Rev) (cur upd : Rev)
    (s : RevSt) (hok : (truncateF plan (some lim) podRevs revs cur upd s).2 = .ok) :
    truncDeletes plan (some lim) podRevs revs cur upd s =
      if ((historyOf podRevs revs cur upd).length : Int) ≤ lim then []
      else (historyOf podRevs revs cur upd).take ((historyOf podRevs revs cur upd).length - lim.toNat) :=
  (truncateF_result plan lim podRevs revs cur upd s).2.1 hok

/-- **(4)** after a successful truncation at most `lim` (0 for a negative limit) of the unused revisions are still stored.
    `hstore`: the API keeps one object per name. -/
theorem ok_leaves_at_most_limit (plan : List Fault) (lim : Int) (podRevs : List String) (revs : List Rev) (cur upd : Rev)
    (s : RevSt) (hstore : (s.store.map (·.name)).Nodup)
    (hok : (truncateF plan (some lim) podRevs revs cur upd s).2 = .ok) :
    (((truncateF plan (some lim) podRevs revs cur upd s).1.store.filter
        (fun x => ((historyOf podRevs revs cur upd).map (·.name)).contains x.name)).length : Int) ≤ max lim 0 := by
  have := truncateF_ok_left plan lim podRevs revs cur upd s hstore hok
  omega

/-- **never loses a live revision**: a stored revision named by `cur`, `upd` or a pod's revision label is still stored
    afterwards, whatever the limit, the faults and the outcome -/
theorem live_revisions_survive (plan : List Fault) (limit : Option Int) (podRevs : List String) (revs : List Rev) (cur upd : Rev)
    (s : RevSt) (x : Rev) (hx : x ∈ s.store) (hlive : x.name ∈ cur.name :: upd.name :: podRevs) :
    x ∈ (truncateF plan limit podRevs revs cur upd s).1.store :=
  truncateF_keeps_live plan limit podRevs revs cur upd s hx hlive

/-- the store only shrinks, and only by revisions for which a Delete was issued; everything else is left as it was -/
theorem store_only_loses_deleted (plan : List Fault) (limit : Option Int) (podRevs : List String) (revs : List Rev) (cur upd : Rev)
    (s : RevSt) :
    (truncateF plan limit podRevs revs cur upd s).1.store.Sublist s.store ∧
    ∀ x ∈ s.store, x.name ∉ (truncDeletes plan limit podRevs revs cur upd s).map (·.name) →
      x ∈ (truncateF plan limit podRevs revs cur upd s).1.store :=
  truncateF_store plan limit podRevs revs cur upd s

/-- **(5)** a nil `revisionHistoryLimit` is the modelled nil dereference; it issues no call. Not reachable for an admitted
    object: the CRD defaults `spec.revisionHistoryLimit` (to 10), so the API server never stores a set without it. -/
theorem nil_limit_panics (plan : List Fault) (podRevs : List String) (revs : List Rev) (cur upd : Rev) (s : RevSt) :
    truncateF plan none podRevs revs cur upd s = (s, .panic "nil *Spec.RevisionHistoryLimit (stateful_set_control.go)") ∧
    truncDeletes plan none podRevs revs cur upd s = [] :=
  ⟨rfl, rfl⟩

/-- a given limit never panics: the outcome is success or the reported error of the failed Delete -/
theorem some_limit_no_panic (plan : List Fault) (lim : Int) (podRevs : List String) (revs : List Rev) (cur upd : Rev) (s : RevSt) :
    (truncateF plan (some lim) podRevs revs cur upd s).2 = .ok ∨ (truncateF plan (some lim) podRevs revs cur upd s).2 = .err :=
  (truncateF_result plan lim podRevs revs cur upd s).1

/-! ## one whole `sync`

`syncF h i plan` is the model of `StatefulSetController.sync` + `UpdateStatefulSet`. For a finished sync `o`,
`SYb.adoptedStore plan i` is the store after the adoption stage (same revisions; owners / labels may have changed),
`SYb.syncListing plan i = sortRevs (listRevisions (adoptedStore plan i))` the listing the reconcile works on,
`SYb.syncLive o = o.cur :: o.upd :: pod labels of o.claimed`, and `SYb.syncHistory plan i o` the listed revisions owned by
the set and not named in `syncLive o`, oldest first. `SYb.pre "delete:rev:" e` says the log entry `e` starts with
`delete:rev:` (character by character) and `SYb.delKey r = "delete:rev:" ++ r.name`.

The string-level monitor `Spec.C13` is proved on `syncF` at the end of this file (`C13_monitor_true_on_model`); the statements
here are its clauses on the structured reading of the log. -/

/-- **(1)–(3) for a whole sync**, every store / pods / hashing / fault plan: the `delete:rev:` entries of the complete log,
    in order, are the rendering of a list `d` of revisions such that `d` is a prefix of the sync's unused history —
    so each is listed, owned by the set (possibly adopted in this very sync), not the current or update revision, not a
    pod's label, each named once, oldest first —; `d` is empty unless the history exceeds the limit; `|d|` is at most the
    excess; a successful sync deletes exactly the excess; and no other stored revision disappears. -/
theorem sync_deletes (h : Hashing) (i : SyncIn) (plan : List Fault) :
    ∃ d : List Rev,
      (syncF h i plan).log.filter (pre "delete:rev:") = d.map delKey ∧
      d <+: syncHistory plan i (syncF h i plan) ∧
      (d ≠ [] → ∃ lim, i.historyLimit = some lim ∧ lim < ((syncHistory plan i (syncF h i plan)).length : Int)) ∧
      (∀ lim, i.historyLimit = some lim → d.length ≤ (syncHistory plan i (syncF h i plan)).length - lim.toNat) ∧
      (∀ lim, i.historyLimit = some lim → (syncF h i plan).outcome = .ok → (i.paused || !i.selectorOk) = false →
        d = if ((syncHistory plan i (syncF h i plan)).length : Int) ≤ lim then []
            else (syncHistory plan i (syncF h i plan)).take ((syncHistory plan i (syncF h i plan)).length - lim.toNat)) ∧
      (∀ x ∈ adoptedStore plan i, x.name ∉ d.map (·.name) → ∃ y ∈ (syncF h i plan).store, y.name = x.name) :=
  sync_delete_entries h i plan

/-- what being in the sync's unused history means: stored (after adoption), listed by selector or marker, controlled by
    this set, named neither by the current nor the update revision nor by a claimed pod's revision label -/
theorem sync_history_members (plan : List Fault) (i : SyncIn) (o : SyncOut) (r : Rev) (hr : r ∈ syncHistory plan i o) :
    r ∈ adoptedStore plan i ∧ (r.selMatch = true ∨ r.marker = true) ∧ r.owner = .self ∧
    r.name ∉ o.cur :: o.upd :: o.claimed.map (·.pod.rev) :=
  mem_syncHistory hr

/-- the adoption stage changes owners and labels only: position by position the adopted store has the revisions of the
    initial store with the same name, number, creation time, data, hash label and marker -/
theorem adopted_store_same_revisions (plan : List Fault) (i : SyncIn) :
    (adoptedStore plan i).map core = i.store.map core :=
  (adoptedStore_adopted plan i).map_core

/-- the unused history has distinct names and is strictly ascending in (revision number, creation time, name): "each
    counted once", and a prefix of it is "the oldest" -/
theorem sync_history_distinct_sorted (plan : List Fault) (i : SyncIn) (o : SyncOut) :
    ((syncHistory plan i o).map (·.name)).Nodup ∧ (syncHistory plan i o).Pairwise (fun a b => revLt a b = true) :=
  ⟨syncHistory_names_nodup plan i o, syncHistory_strict plan i o⟩

/-- different revisions render to different `delete:rev:` entries -/
theorem delete_entry_names (a b : Rev) (h : delKey a = delKey b) : a.name = b.name := delKey_inj h

/-- **(4) for a whole sync**: after a successful sync (limit present, one object per name in the API) the final store
    holds at most `lim` (0 for a negative limit) unused revisions — owned by the set, listed by selector or marker, and
    named neither by the current nor the update revision nor by a claimed pod -/
theorem sync_ok_at_most_limit_unused (h : Hashing) (i : SyncIn) (plan : List Fault) (lim : Int)
    (hrun : (i.paused || !i.selectorOk) = false) (hlim : i.historyLimit = some lim)
    (hn : (i.store.map (·.name)).Nodup) (hok : (syncF h i plan).outcome = .ok) :
    (((syncF h i plan).store.filter (fun x => x.owner == .self && (x.selMatch || x.marker) &&
        !(syncLive (syncF h i plan)).contains x.name)).length : Int) ≤ max lim 0 :=
  sync_ok_history_within_limit h i plan lim hrun hlim hn hok

/-- **(5) for a whole sync**: with `revisionHistoryLimit` absent a sync that gets as far as the truncation ends in the
    modelled nil dereference — it cannot succeed. (Not reachable for admitted objects: the CRD defaults the field.) -/
theorem sync_nil_limit_never_ok (h : Hashing) (i : SyncIn) (plan : List Fault)
    (hrun : (i.paused || !i.selectorOk) = false) (hlim : i.historyLimit = none) : (syncF h i plan).outcome ≠ .ok := by
  rcases sync_cases h i plan hrun with ⟨h1, _⟩ | ⟨⟨R⟩⟩
  · exact h1
  · rw [R.oout, hlim, truncateF_none]; simp

/-! ## (6) the monitor on the model

`SYb.InputOk i`: the store holds one revision per name, the pod cache one pod per name, and no such name contains ':'.
All four parts are needed for the monitor to read the log back faithfully (they are facts about the API — object names are
unique per kind and namespace and DNS-1123 — not about the controller): `#eval` of `Spec.C13` on the model gives `false`
for the example world below with revision `web-a-0` renamed `web:a-0` (the monitor takes `delete:rev:web:a-0` for no call
and then sees the second Delete as out of order), and with a second, terminating, unowned cached pod that shares the name
of an adopted one and is labelled with an old revision (the monitor counts pods by name and so believes that revision
live). No counterexample was found for two stored revisions of one name; the proof uses it to identify a revision before
and after adoption. -/

/-- **C13 headline**: the monitor is true on the model for every hashing, every fault plan and every input satisfying
    `InputOk` — every store, limit (absent, negative, any), pod list, adoption / claim / fault history -/
theorem C13_monitor_true_on_model (h : Hashing) (i : SyncIn) (plan : List Fault) (hok : InputOk i) :
    C13 i plan (syncF h i plan).observe = true :=
  C13_model h i plan hok

/-- the monitor's sorted list of unused revisions carries, in a sync that reaches the truncation, the same names in the same
    order as the model's history: the structured theorems above and the monitor speak about the same list -/
theorem monitor_unused_is_model_history (h : Hashing) (i : SyncIn) (plan : List Fault) (hok : InputOk i)
    (R : Reach h i plan (syncF h i plan)) :
    (sortRevs ((ownListed i plan (syncF h i plan).observe).filter
        (fun r => !(liveNames i plan (syncF h i plan).observe).contains r.name))).map (·.name) =
      (syncHistory plan i (syncF h i plan)).map (·.name) :=
  unused_names_eq R hok (sync_log_shapes h i plan)

/-! ## the hypotheses are satisfiable: a concrete world -/

def exH : Hashing := { nameOf := fun d c => s!"web-{d}-{c}", hashNumOf := fun _ _ => none }
def exRev (nm : String) (n : Int) (d : String) : Rev :=
  { name := nm, number := n, ctime := n, data := d, hashNum := none, owner := .self, selMatch := true, marker := false }
def exStore : List Rev := [exRev "web-a-0" 1 "a", exRev "web-b-0" 2 "b", exRev "web-c-0" 3 "c", exRev "web-d-0" 4 "d"]
def exPod (k : Nat) (rev : String) : CPod :=
  { name := s!"web-{k}",
    pod := { id := k, ord := k, phase := .running, ready := true, terminating := false, rev := rev, idOk := true, stOk := true },
    owner := .self, selMatch := true, member := true }
/-- a set at template `d` (revision 4), two healthy pods, three unused revisions, history limit 1 -/
def exIn : SyncIn :=
  { setName := "web", paused := false, selectorOk := true,
    view := { replicas := some 2, slots := [], parallel := false, strat := .rolling, ru := some (some 0), deleting := false,
              generation := 3, stCurrentReplicas := 2 },
    stored := { replicas := 2, ready := 2, current := 2, updated := 2, currentRev := "web-d-0", updateRev := "web-d-0",
                observedGen := 3 },
    collisionCount := some 0, historyLimit := some 1, template := "d",
    fresh := { gone := false, uidOk := true, deleting := false },
    store := exStore, pods := [exPod 0 "web-d-0", exPod 1 "web-d-0"] }

/-- the hypothesis of the headline holds in the example world -/
example : InputOk exIn := ⟨by decide, by decide, by decide, by decide⟩

/-- three unused revisions, limit 1: the two oldest are deleted, in order, and the sync succeeds with one left -/
example : (exStore.map (·.name)).Nodup ∧ (syncF exH exIn []).outcome = .ok ∧
    (syncHistory [] exIn (syncF exH exIn [])).map (·.name) = ["web-a-0", "web-b-0", "web-c-0"] ∧
    (syncF exH exIn []).log.filter (pre "delete:rev:") = ["delete:rev:web-a-0", "delete:rev:web-b-0"] ∧
    (syncF exH exIn []).store.map (·.name) = ["web-c-0", "web-d-0"] := by decide

/-- a failed Delete is the last one, is reported, and leaves what it did not delete -/
example :
    (syncF exH exIn [⟨"delete:rev:web-b-0", 0, .other⟩]).outcome = .err ∧
    (syncF exH exIn [⟨"delete:rev:web-b-0", 0, .other⟩]).log.filter (pre "delete:rev:") = ["delete:rev:web-a-0", "delete:rev:web-b-0"] ∧
    (syncF exH exIn [⟨"delete:rev:web-b-0", 0, .other⟩]).store.map (·.name) = ["web-b-0", "web-c-0", "web-d-0"] := by decide

/-- a pod still labelled with an old revision keeps it alive -/
example : (syncF exH { exIn with pods := [exPod 0 "web-a-0", exPod 1 "web-d-0"], historyLimit := some 0 } []).store.map (·.name) =
    ["web-a-0", "web-d-0"] := by decide

end Asts.C13
