import Asts.Proofs.EditHistory

/-! # C02 / C03 over a scale edit: what the history converges to

Property theorems only. `applyEdits` is the `worldedit` model of the user's edits, `roundsN` the model's rounds, `Final` the
quiescent state of C02 (all of `Asts.C02.C02_converges`'s premises are those of that theorem, for the world the edit produced).
These statements are about the ordinals the set's own pods occupy once the history has gone quiet; which calls each
reconcile on the way may issue is C03 / C04 / C05 (`slot_k_only`, `slot_out_only`, …). -/
namespace Asts.EditHist
open Asts Asts.C02p List

/-- **whatever the user edits, the history converges to the desired set of the edited spec**: within the round bound the world
    is final and the set's own pods sit on exactly `desired` of the spec the edits left, one pod per ordinal -/
theorem edits_converge_to_desired (h : Hashing) (es : List Edit) (W : SyncIn)
    (hw : wfWorld h (applyEdits es W) = true) (hx : extraMB h (applyEdits es W) = true) :
    ∃ n ≤ roundBound (applyEdits es W), Final h (roundsN h n (applyEdits es W)) ∧
      ((ownPods (roundsN h n (applyEdits es W))).map (·.pod.ord)).Perm
        (desired (replicasOf (applyEdits es W).view) (applyEdits es W).view.slots) := by
  obtain ⟨n, hn, hf⟩ := Asts.C02.C02_converges h _ hw hx
  exact ⟨n, hn, hf, roundsN_desired h n _ ▸ final_ords hf⟩

/-- **scale-in at slot `k`, the whole history**: from a final world with `replicas = r` and slots `S`, the user lists the
    desired ordinal `k` and lowers `replicas` to `r - 1`. The history converges, and the ordinals occupied afterwards are the
    ordinals occupied before with `k` — and only `k` — removed. -/
theorem slot_in_history (h : Hashing) (W : SyncIn) (r k : Int) (S : List Int) (hF : Final h W)
    (hr : W.view.replicas = some r) (h1 : 1 ≤ r) (hS : W.view.slots = S) (hk : k ∈ desired r S)
    (hw : wfWorld h (applyEdits [.replicas (r - 1), .slots (some (k :: S))] W) = true)
    (hx : extraMB h (applyEdits [.replicas (r - 1), .slots (some (k :: S))] W) = true) :
    ∃ n ≤ roundBound (applyEdits [.replicas (r - 1), .slots (some (k :: S))] W),
      Final h (roundsN h n (applyEdits [.replicas (r - 1), .slots (some (k :: S))] W)) ∧
      ((ownPods (roundsN h n (applyEdits [.replicas (r - 1), .slots (some (k :: S))] W))).map (·.pod.ord)).Perm
        (((ownPods W).map (·.pod.ord)).erase k) := by
  obtain ⟨n, hn, hf, hp⟩ := edits_converge_to_desired h _ W hw hx
  refine ⟨n, hn, hf, hp.trans ?_⟩
  have hbefore := final_ords hF
  have hrW : replicasOf W.view = r := by simp [replicasOf, hr]
  rw [hrW, hS] at hbefore
  have hne : ¬ W.view.replicas = some (r - 1) := by
    intro h; rw [hr] at h; injection h with h; omega
  have hview : desired (replicasOf (applyEdits [.replicas (r - 1), .slots (some (k :: S))] W).view)
      (applyEdits [.replicas (r - 1), .slots (some (k :: S))] W).view.slots = desired (r - 1) (k :: S) := by
    simp [applyEdits, applyEdit, editReplicas, hne, replicasOf]
  rw [hview, desired_cons_erase r S k h1 hk]
  exact (hbefore.erase k).symm

/-- **scale-out at slot `k`, the whole history**: from a final world with `replicas = r` and `k` among the slots `S`, the user
    un-lists `k` and raises `replicas` to `r + 1` (with `k` below the new bound). The history converges, and the ordinals
    occupied afterwards are the ordinals occupied before plus `k` — and only `k`. -/
theorem slot_out_history (h : Hashing) (W : SyncIn) (r k : Int) (hF : Final h W)
    (hr : W.view.replicas = some r) (h0 : 0 ≤ r) (hkS : k ∈ W.view.slots)
    (hk : k ∈ desired (r + 1) (W.view.slots.filter (fun s => decide (s ≠ k))))
    (hw : wfWorld h (applyEdits [.replicas (r + 1), .slots (some (W.view.slots.filter (fun s => decide (s ≠ k))))] W) = true)
    (hx : extraMB h (applyEdits [.replicas (r + 1), .slots (some (W.view.slots.filter (fun s => decide (s ≠ k))))] W) = true) :
    ∃ n ≤ roundBound (applyEdits [.replicas (r + 1), .slots (some (W.view.slots.filter (fun s => decide (s ≠ k))))] W),
      Final h (roundsN h n (applyEdits [.replicas (r + 1), .slots (some (W.view.slots.filter (fun s => decide (s ≠ k))))] W)) ∧
      ((ownPods (roundsN h n (applyEdits [.replicas (r + 1),
          .slots (some (W.view.slots.filter (fun s => decide (s ≠ k))))] W))).map (·.pod.ord)).Perm
        (k :: (ownPods W).map (·.pod.ord)) := by
  obtain ⟨n, hn, hf, hp⟩ := edits_converge_to_desired h _ W hw hx
  refine ⟨n, hn, hf, hp.trans ?_⟩
  have hbefore := final_ords hF
  have hrW : replicasOf W.view = r := by simp [replicasOf, hr]
  rw [hrW] at hbefore
  have hne : ¬ W.view.replicas = some (r + 1) := by
    intro h; rw [hr] at h; injection h with h; omega
  have hview : desired (replicasOf (applyEdits [.replicas (r + 1),
        .slots (some (W.view.slots.filter (fun s => decide (s ≠ k))))] W).view)
      (applyEdits [.replicas (r + 1), .slots (some (W.view.slots.filter (fun s => decide (s ≠ k))))] W).view.slots =
      desired (r + 1) (W.view.slots.filter (fun s => decide (s ≠ k))) := by
    simp [applyEdits, applyEdit, editReplicas, hne, replicasOf]
  rw [hview]
  refine (List.perm_cons_erase hk).trans (List.Perm.cons k ?_)
  rw [desired_unlist_erase r W.view.slots k h0 hkS hk]
  exact hbefore.symm

/-- **plain scale-out by one, the whole history**: afterwards the occupied ordinals are those before plus one new ordinal,
    above all of them and not a slot -/
theorem scale_out_history (h : Hashing) (W : SyncIn) (r : Int) (hF : Final h W)
    (hr : W.view.replicas = some r) (h0 : 0 ≤ r)
    (hw : wfWorld h (applyEdits [.replicas (r + 1)] W) = true) (hx : extraMB h (applyEdits [.replicas (r + 1)] W) = true) :
    ∃ n ≤ roundBound (applyEdits [.replicas (r + 1)] W), Final h (roundsN h n (applyEdits [.replicas (r + 1)] W)) ∧
      ∃ o, 0 ≤ o ∧ o ∉ W.view.slots ∧ (∀ p ∈ (ownPods W).map (·.pod.ord), p < o) ∧
        ((ownPods (roundsN h n (applyEdits [.replicas (r + 1)] W))).map (·.pod.ord)).Perm
          ((ownPods W).map (·.pod.ord) ++ [o]) := by
  obtain ⟨n, hn, hf, hp⟩ := edits_converge_to_desired h _ W hw hx
  have hbefore := final_ords hF
  have hrW : replicasOf W.view = r := by simp [replicasOf, hr]
  rw [hrW] at hbefore
  have hne : ¬ W.view.replicas = some (r + 1) := by
    intro h; rw [hr] at h; injection h with h; omega
  have hview : desired (replicasOf (applyEdits [.replicas (r + 1)] W).view) (applyEdits [.replicas (r + 1)] W).view.slots =
      desired (r + 1) W.view.slots := by
    simp [applyEdits, applyEdit, editReplicas, hne, replicasOf]
  obtain ⟨o, ho, ho0, hoS, hlt⟩ := desired_succ r W.view.slots h0
  refine ⟨n, hn, hf, o, ho0, hoS, fun p hp' => hlt p (hbefore.mem_iff.1 hp'), ?_⟩
  rw [hview, ho] at hp
  exact hp.trans (List.Perm.append_right _ hbefore.symm)

/-- **scale-in at slot `k` with `replicas` unchanged, the whole history**: the pod at `k` is moved — afterwards the occupied
    ordinals are those before without `k`, plus one new ordinal above all of them -/
theorem slot_move_history (h : Hashing) (W : SyncIn) (r k : Int) (hF : Final h W)
    (hr : W.view.replicas = some r) (h1 : 1 ≤ r) (hk : k ∈ desired r W.view.slots)
    (hw : wfWorld h (applyEdits [.slots (some (k :: W.view.slots))] W) = true)
    (hx : extraMB h (applyEdits [.slots (some (k :: W.view.slots))] W) = true) :
    ∃ n ≤ roundBound (applyEdits [.slots (some (k :: W.view.slots))] W),
      Final h (roundsN h n (applyEdits [.slots (some (k :: W.view.slots))] W)) ∧
      ∃ o, 0 ≤ o ∧ o ∉ k :: W.view.slots ∧ (∀ p ∈ ((ownPods W).map (·.pod.ord)).erase k, p < o) ∧
        ((ownPods (roundsN h n (applyEdits [.slots (some (k :: W.view.slots))] W))).map (·.pod.ord)).Perm
          (((ownPods W).map (·.pod.ord)).erase k ++ [o]) := by
  obtain ⟨n, hn, hf, hp⟩ := edits_converge_to_desired h _ W hw hx
  have hbefore := final_ords hF
  have hrW : replicasOf W.view = r := by simp [replicasOf, hr]
  rw [hrW] at hbefore
  have hview : desired (replicasOf (applyEdits [.slots (some (k :: W.view.slots))] W).view)
      (applyEdits [.slots (some (k :: W.view.slots))] W).view.slots = desired r (k :: W.view.slots) := by
    simp [applyEdits, applyEdit, replicasOf, hr]
  obtain ⟨o, ho, ho0, hoS, hlt⟩ := desired_cons_same r W.view.slots k h1 hk
  refine ⟨n, hn, hf, o, ho0, hoS, fun p hp' => hlt p ((hbefore.erase k).mem_iff.1 hp'), ?_⟩
  rw [hview, ho] at hp
  exact hp.trans (List.Perm.append_right _ (hbefore.erase k).symm)

/-- **plain scale-in by one, the whole history**: afterwards the occupied ordinals are those before without the top one -/
theorem scale_in_history (h : Hashing) (W : SyncIn) (r : Int)
    (hr : W.view.replicas = some (r + 1)) (h0 : 0 ≤ r)
    (hw : wfWorld h (applyEdits [.replicas r] W) = true) (hx : extraMB h (applyEdits [.replicas r] W) = true) :
    ∃ n ≤ roundBound (applyEdits [.replicas r] W), Final h (roundsN h n (applyEdits [.replicas r] W)) ∧
      ((ownPods (roundsN h n (applyEdits [.replicas r] W))).map (·.pod.ord)).Perm
        (desired (r + 1) W.view.slots).dropLast := by
  obtain ⟨n, hn, hf, hp⟩ := edits_converge_to_desired h _ W hw hx
  refine ⟨n, hn, hf, hp.trans ?_⟩
  have hne : ¬ W.view.replicas = some r := by
    intro h; rw [hr] at h; injection h with h; omega
  have hview : desired (replicasOf (applyEdits [.replicas r] W).view) (applyEdits [.replicas r] W).view.slots =
      desired r W.view.slots := by
    simp [applyEdits, applyEdit, editReplicas, hne, replicasOf]
  rw [hview, desired_dropLast r W.view.slots h0]

end Asts.EditHist

/-! non-vacuity: `Asts.C02.exWorld` (replicas 3, slots [1], pods 0 2 3, final); the user lists 2 and lowers replicas to 2, or
    just lowers replicas to 2: the premises of the theorems hold of these worlds -/
namespace Asts.EditHist
open Asts Asts.C02p

example : Final Asts.C02.exH Asts.C02.exWorld ∧ Asts.C02.exWorld.view.replicas = some 3 ∧ Asts.C02.exWorld.view.slots = [1] ∧ (2 : Int) ∈ desired 3 [1] := by
  decide +kernel
example : wfWorld Asts.C02.exH (applyEdits [.replicas (3 - 1), .slots (some (2 :: [1]))] Asts.C02.exWorld) = true ∧
    extraMB Asts.C02.exH (applyEdits [.replicas (3 - 1), .slots (some (2 :: [1]))] Asts.C02.exWorld) = true := by decide +kernel
example : Asts.C02.exWorld.view.replicas = some (2 + 1) ∧ wfWorld Asts.C02.exH (applyEdits [.replicas 2] Asts.C02.exWorld) = true ∧
    extraMB Asts.C02.exH (applyEdits [.replicas 2] Asts.C02.exWorld) = true := by decide +kernel
example : ((ownPods Asts.C02.exWorld).map (·.pod.ord)).erase 2 = [0, 3] := by decide +kernel

end Asts.EditHist
