import Asts.Proofs.Patch
import Asts.Proofs.JsonToks
import Asts.Proofs.JsonLex
import Asts.Proofs.PatchBytes
/-! # C08, byte half — "status.updateRevision names a stored ControllerRevision whose recorded data, applied to the set, reproduces the set's
current pod template exactly … Editing only replicas, delete-slots, the pause annotation or other metadata never changes the update revision"

Statements about `Model/Patch` (`getPatch`, `applyReplacePatch`) and `Model/Json` (`toks`, `ser`, the parsers), for ALL JSON trees — no bound on
size or depth. `raw` / `top` stand for the encoded set after `json.Unmarshal` into `map[string]interface{}`. The tie between these functions and
`/repo` is the `patch` engine: on every case the model predicts, from the tree of the encoded set, the exact bytes of `getPatch`, their hash and the
re-encoded result of `ApplyRevision`. Not proved (sampled by the engine): the struct → JSON field mapping of the apimachinery codec and the
general `strategicpatch` algorithm outside the `$patch: replace` shape. Numbers are exact integers in the model; the Go code goes through
`float64`, exact below 2^53 (assumption recorded in `vlib/ext_patch.py`). The store-level half of C08 is in `Props/C08.lean`. -/
namespace Asts.C08bytes
open Asts.Patch

/-- the recorded data depends only on the `spec.template` subtree of the encoded set -/
theorem patch_reads_only_template (s₁ s₂ : Json) (h : template? s₁ = template? s₂) : getPatch s₁ = getPatch s₂ :=
  getPatch_congr s₁ s₂ h

/-- writing ANY value to a top-level member other than `spec` — `metadata` (labels, annotations incl. delete-slots and the pause flag, generation,
    resourceVersion, finalizers, owners, timestamps), `status`, `kind`, `apiVersion` — never changes the recorded data -/
theorem patch_unchanged_by_top_edit (k : String) (v : Json) (top : Obj) (hk : k ≠ "spec") :
    getPatch (.obj (setKey k v top)) = getPatch (.obj top) :=
  getPatch_congr _ _ (template_setTop k v top hk)

theorem patch_unchanged_by_top_removal (k : String) (top : Obj) (hk : k ≠ "spec") :
    getPatch (.obj (eraseKey k top)) = getPatch (.obj top) :=
  getPatch_congr _ _ (template_eraseTop k top hk)

/-- writing ANY value to a member of `spec` other than `template` — replicas, serviceName, selector, updateStrategy, podManagementPolicy,
    revisionHistoryLimit, volumeClaimTemplates — never changes the recorded data -/
theorem patch_unchanged_by_spec_edit (k : String) (v : Json) (top spec : Obj) (hk : k ≠ "template") (hs : lookup "spec" top = some (.obj spec)) :
    getPatch (.obj (setKey "spec" (.obj (setKey k v spec)) top)) = getPatch (.obj top) :=
  getPatch_congr _ _ (template_setSpec k v top spec hk hs)

theorem patch_unchanged_by_spec_removal (k : String) (top spec : Obj) (hk : k ≠ "template") (hs : lookup "spec" top = some (.obj spec)) :
    getPatch (.obj (setKey "spec" (.obj (eraseKey k spec)) top)) = getPatch (.obj top) :=
  getPatch_congr _ _ (template_eraseSpec k top spec hk hs)

/-- `getPatch` succeeds exactly when `spec` and `spec.template` are objects (otherwise the Go type assertion panics) -/
theorem patch_defined_iff (s : Json) : (getPatch s).isSome = (template? s).isSome :=
  getPatch_isSome_iff s

/-- the recorded data is injective in the template: two sets whose templates carry no member named `$patch` (no `PodTemplateSpec` does: its members
    are `metadata` and `spec`) and whose recorded data are equal have equal templates -/
theorem patch_injective (s₁ s₂ : Json) (t₁ t₂ : Obj) (h₁ : template? s₁ = some t₁) (h₂ : template? s₂ = some t₂)
    (d₁ : hasKey directiveKey t₁ = false) (d₂ : hasKey directiveKey t₂ = false) (h : getPatch s₁ = getPatch s₂) : t₁ = t₂ := by
  rw [getPatch_eq_some s₁ t₁ h₁, getPatch_eq_some s₂ t₂ h₂] at h
  exact patchOf_injective t₁ t₂ d₁ d₂ (Option.some.inj h)

/-- hence: equal recorded data ↔ equal template (the connection between the byte level and the abstract `TemplateId` of L1–L5) -/
theorem patch_eq_iff_template_eq (s₁ s₂ : Json) (t₁ t₂ : Obj) (h₁ : template? s₁ = some t₁) (h₂ : template? s₂ = some t₂)
    (d₁ : hasKey directiveKey t₁ = false) (d₂ : hasKey directiveKey t₂ = false) : getPatch s₁ = getPatch s₂ ↔ t₁ = t₂ :=
  ⟨patch_injective s₁ s₂ t₁ t₂ h₁ h₂ d₁ d₂, fun e => getPatch_congr _ _ (by rw [h₁, h₂, e])⟩

/-- applying the data recorded for a set with template `t` to ANY set (whatever its template and other members) yields a set whose
    `spec.template` is exactly `t` … -/
theorem restore_template (top spec t : Obj) (src : Json) (hsrc : template? src = some t) (hd : hasKey directiveKey t = false)
    (hs : lookup "spec" top = some (.obj spec)) :
    ∃ r, (getPatch src).bind (applyReplacePatch (.obj top)) = some r ∧ template? r = some t := by
  refine ⟨_, ?_, template_after_apply top spec t⟩
  rw [getPatch_eq_some src t hsrc]
  exact applyReplacePatch_patchOf top spec t hs hd

/-- … and in which every top-level member other than `spec` and every member of `spec` other than `template` is what it was -/
theorem restore_frame (top spec t : Obj) (hd : hasKey directiveKey t = false) (hs : lookup "spec" top = some (.obj spec)) :
    ∃ top' spec', applyReplacePatch (.obj top) (patchOf t) = some (.obj top') ∧ lookup "spec" top' = some (.obj spec') ∧
      (∀ k, k ≠ "spec" → lookup k top' = lookup k top) ∧ (∀ k, k ≠ "template" → lookup k spec' = lookup k spec) :=
  ⟨_, _, applyReplacePatch_patchOf top spec t hs hd, lookup_setKey_self _ _ _,
    fun k hk => member_after_apply_top k top spec t hk, fun k hk => member_after_apply_spec k spec t hk⟩

/-- serialisation is a function of the tree: equal trees ⇒ equal bytes, whatever escaping both sides share -/
theorem bytes_function_of_tree (esc : List Char → List Char) (a b : Json) (h : a = b) : ser esc a = ser esc b := by rw [h]

/-- the structural half of the converse, for every tree: the token parser inverts the token serialiser … -/
theorem parse_tokens_roundtrip (t : Json) : parseToks (toks t) = some t := parseToks_toks t

/-- … so equal token streams ⇒ equal trees (what `Spec.sameTree` relies on) -/
theorem tokens_determine_tree (a b : Json) (h : toks a = toks b) : a = b := toks_injective a b h

/-- the converse at byte level, for EVERY tree (no restriction on strings: quotes, backslashes, control characters, `<`, `>`, `&`, U+2028/9 and
    everything else go through Go's `encoding/json` escaping `goEscape` and come back): parser ∘ serialiser = id … -/
theorem parse_bytes_roundtrip (t : Json) : parse (ser goEscape t) = some t := parse_ser t

/-- … hence equal bytes ⇒ equal trees -/
theorem bytes_determine_tree (a b : Json) (h : ser goEscape a = ser goEscape b) : a = b := ser_injective a b h

/-- `Match(set, revision)` compares bytes: it is true exactly when the templates are equal -/
theorem match_iff_template_eq (t₁ t₂ : Obj) (h₁ : hasKey directiveKey t₁ = false) (h₂ : hasKey directiveKey t₂ = false) :
    ser goEscape (patchOf t₁) = ser goEscape (patchOf t₂) ↔ t₁ = t₂ :=
  patch_bytes_eq_iff t₁ t₂ h₁ h₂

/-- monitor `C08.data` is true on the model, for every encoded set: `Spec.recordsTemplate raw (getPatch raw)` -/
theorem data_monitor_on_model (raw : Json) (t : Obj) (h : template? raw = some t) (hd : hasKey directiveKey t = false) :
    Spec.recordsTemplate raw (patchOf t) = true :=
  recordsTemplate_model raw t h hd

/-- monitor `C08.restore` is true on the model: applying the data recorded for ANY set `a` to ANY set `b` (with a `spec.template` member)
    yields a set that passes `Spec.restores a b ·` -/
theorem restore_monitor_on_model (a : Json) (ta topb specb : Obj) (ha : template? a = some ta) (hd : hasKey directiveKey ta = false)
    (hs : lookup "spec" topb = some (.obj specb)) (ht : hasKey "template" specb = true) :
    ∃ r, applyReplacePatch (.obj topb) (patchOf ta) = some r ∧ Spec.restores a (.obj topb) r = true :=
  restores_model a ta topb specb ha hd hs ht

/-- non-vacuity: a set with a template has a patch, and a `replicas` edit leaves it as it is -/
example : getPatch (.obj [("metadata", .obj [("name", .str "web")]), ("spec", .obj [("replicas", .num 3), ("template", .obj [("metadata", .obj [])])])])
    = some (.obj [("spec", .obj [("template", .obj [("$patch", .str "replace"), ("metadata", .obj [])])])]) := by
  simp [getPatch, template?, lookup, patchOf, insertKey, directiveKey]

example : hasKey directiveKey [("metadata", .obj []), ("spec", .obj [("containers", .null)])] = false := by
  simp [hasKey, directiveKey]

end Asts.C08bytes
