import Asts.Proofs.PodControl
import Asts.Gen.Sites

/-! # C06 — stable identity and storage per ordinal; claims come first and are never removed

Property theorems only; the lemmas live in `Asts/Proofs/PodControl.lean`. `Asts.PodControl` (Model) is the model of
`stateful_set_utils.go` / `stateful_pod_control.go` over real strings (one `Char` per byte), tied to the Go code by the
`podcontrol` engine; `Asts.PodControl.Spec` holds the decidable predicates the monitor evaluates on the implementation.

Domain of the property: ordinals `0 ≤ i < 2^31` (`InDomain`), every set name / namespace / service / uid (arbitrary byte
strings), every list of claim templates (duplicates, empty names), every pod template, every world (API content, PVC informer
cache content, pod lister) and every fault plan (any number of faults on any lookups / creates / updates / deletes).

Partial by nature: "a claim exists" means "the PVC informer cache returned it, or a create of it succeeded". A cache that
still shows a claim deleted out-of-band is outside what the code — and therefore the model — can know.
The parent half of the name round trip needs a set name without a newline (the regexp's `.` does not match one); object
names accepted by the API server never contain one. The ordinal half holds for every byte string. -/
namespace Asts.C06
open Asts.PodControl

/-! ## names -/

/-- `getParentNameAndOrdinal (getPodName S i) = (S, i)` for every set name without a newline — including names with
    dashes and names that themselves end in `-<digits>` (`web-1`, `x-007`, `a--1`, `-`, the empty name) — and every ordinal
    of the domain. -/
theorem name_parses_back (s : Str) (i : Int) (hi : InDomain i) (hs : '\n' ∉ s) : parseName (podName s i) = (s, i) :=
  parseName_podName s i hi hs

/-- The ordinal parses back for EVERY set name, with no condition on its bytes. -/
theorem ordinal_parses_back (s : Str) (i : Int) (hi : InDomain i) : (parseName (podName s i)).2 = i :=
  parseName_podName_ord s i hi

/-- The newline hypothesis of `name_parses_back` cannot be dropped: `.` does not match a newline, the match is leftmost. -/
example : parseName (podName "a\nb".toList 3) = ("b".toList, 3) := by
  rw [show (3 : Int) = ((3 : Nat) : Int) from rfl, parseName_podName_nat, ordOfDigits_digits 3 (by decide)]
  rfl

/-- Pod and claim names determine the ordinal: two different ordinals of a set never share a pod name or a claim. -/
theorem pod_name_injective (s : Str) (i j : Int) (hi : 0 ≤ i) (hj : 0 ≤ j) (h : podName s i = podName s j) : i = j :=
  podName_inj s hi hj h

theorem claim_name_injective (t s : Str) (i j : Int) (hi : 0 ≤ i) (hj : 0 ≤ j) (h : claimName t s i = claimName t s j) : i = j :=
  claimName_inj t s hi hj h

/-! ## the pod that is built -/

/-- Field by field: the pod `newVersionedStatefulSetPod` builds for ordinal `i` has name `S-i`, the set's namespace, hostname
    `S-i`, subdomain = the governing service, the pod-name label, the revision label of the template it was built from
    (`verif-built` marks the template), exactly one owner reference — to the set, by name and UID, controller, blocking —
    and for every claim template `T` a volume `T` bound to claim `T-S-i` and no volume `T` bound to anything else
    (whatever the pod template's own volumes, labels, hostname and subdomain were). -/
theorem built_pod_identity (base : SetV) (rs : RevSel) (i : Int) (hi : InDomain i) (p : Pod)
    (h : newVersionedPod (withMarker base "cur") (withMarker base "upd") rs i = some p) : PodOk base rs i p :=
  newVersionedPod_ok base rs hi h

/-- The volumes, spelled out for `newStatefulSetPod`. -/
theorem built_pod_volumes (v : SetV) (i : Int) (hi : InDomain i) (p : Pod) (h : newPod v i = some p) :
    ∀ t ∈ v.tmpls, (∃ x ∈ p.vols, x.name = t.name ∧ x.claim = some (claimName t.name v.name i)) ∧
      (∀ x ∈ p.vols, x.name = t.name → x.claim = some (claimName t.name v.name i)) :=
  newPod_volumes hi h

/-- A freshly built pod already satisfies `storageMatches` and (newline-free set name) `identityMatches`: the update path
    has nothing to repair on it. -/
theorem built_pod_matches (v : SetV) (i : Int) (hi : InDomain i) (hs : '\n' ∉ v.name) (p : Pod) (h : newPod v i = some p) :
    identityMatches v p = true ∧ storageMatches v p = true :=
  ⟨newPod_identityMatches hi hs h, newPod_storageMatches hi h⟩

/-! ## one `CreateStatefulPod` -/

/-- In every trace of `CreateStatefulPod(set, pod)`, from every world and under every fault plan: the log is lookups / creates
    of the pod's claims followed by at most one pod create; either some claim lookup or create failed, and then there is no
    pod create and the outcome is an error; or nothing failed, the single pod create comes last, and every claim of the pod
    was confirmed (found in the cache, or created) before it. No claim is removed from the API. -/
theorem create_trace (v : SetV) (p : Pod) (cs : List Claim) (hcs : getClaims v p = some cs) (w : World) :
    CreateRun v p cs w (createStatefulPod v p w) :=
  createStatefulPod_run hcs w

/-- Every claim computed for a pod is in the set's namespace, is named `T-S-<ordinal of the pod>` for one of the set's
    claim templates, and carries the selector's match labels (over whatever labels the template had); every template is covered. -/
theorem claims_of_pod (v : SetV) (p : Pod) (cs : List Claim) (hcs : getClaims v p = some cs) :
    (∀ c ∈ cs, ClaimOk v (parseName p.name).2 c) ∧ (∀ t ∈ v.tmpls, ∃ c ∈ cs, c.tname = t.name) :=
  getClaims_ok hcs

/-! ## the monitor is true on the model, for every case of the engine -/

/-- For every step sequence (create / update / delete / cache catch-up in any order and number), set, revision choice,
    ordinal, world, fault plan and initial pod: every clause of the C06 monitor (`Spec.clauses`: name, hostname, subdomain,
    pod-name label, revision label, owner, volumes, claims-first, claim labels + namespace, claim failure ⇒ no pod create and
    an error, only lookups and creates on claims, same claims for the same ordinal) holds on the model's observation. -/
theorem monitor_true_on_model (steps : List Step) (base : SetV) (rs : RevSel) (i : Int) (w : World) (pod : Option Pod)
    (obs : List StepObs) (h : run (mkCase steps base rs i w pod) = some obs) :
    ∀ cl ∈ Spec.clauses base rs i obs, cl.2 = true :=
  monitor_on_run h

/-- Claims first, spelled out on the concatenated call log of a run. -/
theorem claims_first (steps : List Step) (base : SetV) (rs : RevSel) (i : Int) (hi : InDomain i) (w : World) (pod : Option Pod)
    (obs : List StepObs) (h : run (mkCase steps base rs i w pod) = some obs) :
    Spec.claimsFirstFrom base i [] (Spec.allLog obs) = true :=
  claimsFirst_allLog hi obs [] (run_inv h)

/-- A failed claim lookup or create in a create step ⇒ no pod create in that step and an error outcome. -/
theorem claim_failure_blocks_pod (steps : List Step) (base : SetV) (rs : RevSel) (i : Int) (w : World) (pod : Option Pod)
    (obs : List StepObs) (h : run (mkCase steps base rs i w pod) = some obs) : obs.all Spec.claimFailOk = true :=
  monitor_on_run h ("C06.claimfail", _) (by simp [Spec.clauses])

/-- Scale in, scale out: all pods created for the ordinal within one history are bound to the same claims. -/
theorem same_claims_after_scale_in_out (steps : List Step) (base : SetV) (rs : RevSel) (i : Int) (w : World) (pod : Option Pod)
    (obs : List StepObs) (h : run (mkCase steps base rs i w pod) = some obs) : Spec.sameClaimsOk base obs = true :=
  sameClaims_run obs (run_inv h)

/-! ## claims are never removed -/

/-- None of the three operations of the pod control removes a claim from the API, whatever the world and the faults. -/
theorem claims_never_removed (v : SetV) (p : Pod) (w : World) :
    (∀ cs, getClaims v p = some cs → ∀ x ∈ w.claims, x ∈ (createStatefulPod v p w).1.claims) ∧
    (∀ x ∈ w.claims, x ∈ (updateStatefulPod v p w).1.claims) ∧
    (deleteStatefulPod v p w).1.claims = w.claims :=
  ⟨fun _ hcs => (createStatefulPod_run hcs w).claims, (updateStatefulPod_spec v p w).2, (deleteStatefulPod_spec v p w).2⟩

/-- Over the call-site inventory regenerated from /repo on every run: the only client write on PersistentVolumeClaims
    anywhere in the anchor packages is `Create`. -/
theorem only_create_on_claims :
    ∀ s ∈ Asts.Gen.writeSites, s.2.2.1 = "PersistentVolumeClaims" → s.2.2.2 = "Create" := by decide

/-- … and that inventory does contain the create site the model accounts for (the fact file is not empty of claims). -/
theorem claim_create_site_present :
    ("pkg/controller/statefulset/stateful_pod_control.go", "realStatefulPodControl.createPersistentVolumeClaims",
      "PersistentVolumeClaims", "Create") ∈ Asts.Gen.writeSites := by decide

/-! ## non-vacuity -/

namespace Example
def setWeb1 : SetV :=
  { name := "web-1".toList, ns := "ns".toList, svc := "svc".toList, uid := "uid-1".toList, sel := some [("app".toList, "web".toList)],
    tmpls := [⟨"data".toList, []⟩, ⟨"log".toList, [("tier".toList, "x".toList)]⟩], ptLabels := [], ptVols := [], ptHost := [], ptSub := [] }
def rs : RevSel := { rolling := true, ru := none, curReplicas := 0, curRev := "a".toList, updRev := "b".toList }
def world (faults : List Fault) : World := { claims := [], pods := [], cache := [], counts := [], faults := faults, fresh := none }

/-- the hypotheses of the theorems above are satisfiable: set `web-1`, templates `data` and `log`, ordinal 2 — the pod can
    be built, its claims can be computed, and the engine's create step runs (the `podcontrol` corpus holds the same case
    run through the real code: lookups and creates of `data-web-1-2` and `log-web-1-2`, then the pod `web-1-2`) -/
example : ∃ p, newVersionedPod (withMarker setWeb1 "cur") (withMarker setWeb1 "upd") rs 2 = some p := by
  unfold newVersionedPod newPod updateStorage
  obtain ⟨cs1, h1⟩ := getClaims_isSome_of_sel (v := withMarker setWeb1 "cur")
    (initIdentity (withMarker setWeb1 "cur") { basePod (withMarker setWeb1 "cur") with name := podName (withMarker setWeb1 "cur").name 2 }) rfl
  obtain ⟨cs2, h2⟩ := getClaims_isSome_of_sel (v := withMarker setWeb1 "upd")
    (initIdentity (withMarker setWeb1 "upd") { basePod (withMarker setWeb1 "upd") with name := podName (withMarker setWeb1 "upd").name 2 }) rfl
  split
  · exact ⟨_, by rw [h1]; rfl⟩
  · exact ⟨_, by rw [h2]; rfl⟩

example (p : Pod) : ∃ cs, getClaims setWeb1 p = some cs := getClaims_isSome_of_sel p rfl

example (faults : List Fault) : ∃ obs, run (mkCase [.C] setWeb1 rs 2 (world faults) none) = some obs := by
  simp only [run, mkCase, runSteps]
  split
  · exact ⟨_, rfl⟩
  · exact ⟨_, rfl⟩

example : InDomain 2 := by unfold InDomain; omega
end Example

end Asts.C06
