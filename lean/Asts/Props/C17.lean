import Asts.Proofs.Upgrade
import Asts.Gen.Sites

/-! # C17 — upgrade from the built-in StatefulSet never loses pods and survives interruption

Property theorems only; the lemmas live in `Asts/Proofs/Upgrade`. `Upgrade.run` / `Upgrade.runs` are the model of
`client/apis/apps/v1/helper/upgrade.go` (`func Upgrade`) over two API states with an injection (error answer — executed or
not — or death of the process) at any call index of any run, tied to the Go code by the `upgrade` engine; the predicates of
`Asts/Spec/Upgrade` are what the monitors evaluate on the implementation. The caller re-submits the same built-in object on
every run. No bound on the number of revisions, of runs or of injections.

World assumptions of the model: names are unique per namespace; nothing else writes concurrently; the Advanced StatefulSet
resource has the status subresource; the garbage collector honours orphan propagation (not modelled: the theorems are about
the calls and the stored objects). The model describes the INTENDED handling of a selected revision without a label map (an
empty map is created); the tree as found panicked there — see `Model/Upgrade.revOne`. -/
namespace Asts.C17
open Asts.Upgrade

/-- **Prefix safety.** In every run of every case — any injections in any number of earlier and current runs, whether or not
    an Advanced StatefulSet pre-exists, any selector, any revisions — each delete of the built-in StatefulSet is issued with
    orphan propagation, from a state in which the Advanced StatefulSet of that name exists with the built-in object's spec and
    status and every revision the selector matched at entry is stored without the selector's match-label keys and with the
    marker; and no call of the trace is on a pod or a claim. -/
theorem prefix_safety (p : Params) (w : World2) (injs : List (Nat → Inj)) :
    Spec.safeRuns p w (runs p w injs).2 = true :=
  runs_safe injs w (reach_refl p w.revs)

/-- **Nothing is lost.** After any runs every revision stored at entry is still stored, and pods and claims are what they were. -/
theorem nothing_lost (p : Params) (w : World2) (injs : List (Nat → Inj)) :
    Spec.revsKept w (runs p w injs).1 = true ∧ Spec.untouched w (runs p w injs).1 = true :=
  runs_kept p w injs

/-- **Recoverability.** Any number of failed or killed runs (any plan) followed by a fault-free run ends in exactly the stored
    state in which a single uninterrupted run from the same start ends. -/
theorem recoverable (p : Params) (w : World2) (injs : List (Nat → Inj)) :
    Spec.sameFinal (runs p w (injs ++ [noInj])).1 (run p noInj w).w = true := by
  rw [runs_append]
  simpa [Spec.sameFinal] using (recover p w injs).1

/-- **Idempotence.** A fault-free run on its own final state changes nothing. -/
theorem idempotent (p : Params) (w : World2) : (run p noInj (run p noInj w).w).w = (run p noInj w).w := by
  simpa [runs] using (recover p w [noInj]).1

/-- **A fault-free run succeeds and upgrades**, for a built-in object that passed apps/v1 validation as far as the helper can
    see (a selector that is present and converts): the built-in set is gone, the Advanced set has its spec and status, every
    selected revision is relabelled, every revision, pod and claim is kept. -/
theorem uninterrupted_upgrades (p : Params) (w : World2) (herr : selectorError p.sel = false) (hsel : p.sel.isNil = false) :
    Spec.rerunOk (run p noInj w).out = true ∧ Spec.upgraded p w (run p noInj w).w = true := by
  have h := run_noInj_upgraded (w := w) herr hsel
  exact ⟨by simp [Spec.rerunOk, h.1], h.2⟩

/-- **Re-run until it succeeds.** Under the same hypothesis, after any failed or killed runs a fault-free run succeeds and the
    stored state is the upgraded one. -/
theorem rerun_succeeds (p : Params) (w : World2) (injs : List (Nat → Inj)) (herr : selectorError p.sel = false)
    (hsel : p.sel.isNil = false) :
    Spec.rerunOk (run p noInj (runs p w injs).1).out = true ∧ Spec.upgraded p w (run p noInj (runs p w injs).1).w = true := by
  have h := uninterrupted_upgrades p w herr hsel
  rw [(recover p w injs).1, (recover p w injs).2]
  exact h

/-- **Fact check on the source.** `Gen.upgradeWriteKinds` is regenerated from /repo on every check: the (resource, verb) pairs
    of the client write calls in `Upgrade` and in every function of its package it can reach by static calls. There is no
    write on Pods or PersistentVolumeClaims, the only delete is on StatefulSets, and the kinds are exactly the five write
    calls of the model (revision update; create, update, update-status of the Advanced set; delete of the built-in set) —
    however the body of `Upgrade` is split into helper functions. -/
theorem upgrade_sites_no_pod_claim_write :
    Gen.upgradeWriteKinds.all (fun s => s.1 != "Pods" && s.1 != "PersistentVolumeClaims" &&
      ((s.2 != "Delete" && s.2 != "DeleteCollection") || s.1 == "StatefulSets")) = true ∧
    Gen.upgradeWriteKinds =
      [("ControllerRevisions", "Update"), ("StatefulSets", "Create"), ("StatefulSets", "Delete"), ("StatefulSets", "Update"),
       ("StatefulSets", "UpdateStatus")] := by
  decide

/-! non-vacuity: a three-revision world (one foreign revision), a selector with match labels and an expression; the first run
    is killed before the delete, the second gets a lost response on the delete (executed, answered Timeout), the third is fault free -/
section example_
def exP : Params := { name := "web", sel := { isNil := false, ml := [("a", "x")], exprs := [⟨"t", .opIn, ["p", "q"]⟩] }, spec := 2, status := 3 }
def exRevs : List Rev := [⟨"web-1", some [("a", "x"), ("t", "p")]⟩, ⟨"web-2", some [("a", "q")]⟩, ⟨"web-3", some [("a", "x"), ("t", "q")]⟩]
def exW : World2 := { sts := true, revs := exRevs, asts := none, pods := 0, claims := 0 }
def exKill : Nat → Inj := fun i => if i = 6 then .crash else .none
def exLost : Nat → Inj := fun i => if i = 4 then .err .timeout true else .none

example : selectorError exP.sel = false ∧ exP.sel.isNil = false := by decide
example : (run exP exKill exW).out = .crash ∧ (run exP exKill exW).w.sts = true ∧ (run exP exKill exW).w.asts = some ⟨0, 2, 3⟩ := by decide
example : (runs exP exW [exKill, exLost, noInj]).1 =
    { sts := false, revs := [⟨"web-1", some [("M", "web"), ("t", "p")]⟩, ⟨"web-2", some [("a", "q")]⟩, ⟨"web-3", some [("M", "web"), ("t", "q")]⟩],
      asts := some ⟨0, 2, 3⟩, pods := 0, claims := 0 } := by decide
example : ((runs exP exW [exKill, exLost, noInj]).2.map (·.2)) = [.crash, .err .timeout, .ok] := by decide
/-- a selector made only of a negative expression selects a revision without a label map; the intended helper relabels it -/
def exP2 : Params := { name := "web", sel := { isNil := false, ml := [], exprs := [⟨"c", .doesNotExist, []⟩] }, spec := 1, status := 0 }
def exW2 : World2 := { sts := true, revs := [⟨"web-1", none⟩], asts := none, pods := 0, claims := 0 }
example : (run exP2 noInj exW2).out = .ok ∧ (run exP2 noInj exW2).w.revs = [⟨"web-1", some [("M", "web")]⟩] := by decide
end example_

end Asts.C17
