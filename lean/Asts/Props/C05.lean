import Asts.Spec.Reconcile

/-! # C05 — property theorems (under construction) -/
namespace Asts.C05

end Asts.C05
