import Asts.Proofs.L1_b_C05

/-! # C05 — OrderedReady: one pod at a time, predecessors healthy, scale-in from the top

Property theorems only; the lemmas live in `Asts/Proofs/L1_b_*.lean`. `updateStatefulSet` is the model of the core
reconcile function (tied to the Go code by the `reconcile` engine), `C05` is the monitor of `Spec/Reconcile.lean`,
`observe` is what a recording pod control sees of the model's actions.

Hypotheses, and why each is there:
* `v.replicas = some r`, `0 ≤ r` — the CRD makes `replicas` required with minimum 0 (`C05_holds_total` folds both into
  `0 ≤ replicasOf v`, a nil pointer giving an empty action list);
* `v.parallel = false` — the property is about every policy other than `Parallel`;
* `wfSnapshot pods = true` — the precondition under which `monitorRc` evaluates the clause (`C05.ordered`): no two pods
  parse to the same ordinal, so "the pod at ordinal i" is meaningful (clauses 1–4 in their `Prop` reading do not need it);
* `IdsOk pods` — the monitor recognises the pod handed to a delete by its id: ids must identify the pods of the snapshot
  and stay below the ids of objects built by the reconcile. The engine numbers pods by position (`idsOk_of_positions`).
  Without it the monitor is false on the model (two snapshot pods sharing an id: last `example`). -/
namespace Asts.C05
open Asts Asts.L1b

/-- **Headline.** Under OrderedReady the monitor `C05` is true on the model's output for every spec, every snapshot
    with distinct ordinals and every fault plan — no bound on replicas, slots or pods.
    `Prop` reading: clauses `one_ordinal`, `create_predecessors_healthy`, `scale_in_from_the_top`,
    `update_only_when_settled` below, with `classify_why` relating the monitor's delete classes to the model's. -/
theorem C05_holds (v : SetView) (cur upd : String) (pods : List Pod) (f : Faults) (r : Int)
    (hr : v.replicas = some r) (h0 : 0 ≤ r) (hmono : v.parallel = false) (hwf : wfSnapshot pods = true)
    (hids : IdsOk pods) :
    C05 v pods (observe (updateStatefulSet v cur upd pods f).1.acts) = true :=
  Asts.L1b.C05_holds v cur upd pods f r hr h0 hmono hwf hids

/-- The headline with the replica count read as the monitor reads it (`replicasOf v`, 0 for a nil pointer). -/
theorem C05_holds_total (v : SetView) (cur upd : String) (pods : List Pod) (f : Faults)
    (h0 : 0 ≤ replicasOf v) (hmono : v.parallel = false) (hwf : wfSnapshot pods = true) (hids : IdsOk pods) :
    C05 v pods (observe (updateStatefulSet v cur upd pods f).1.acts) = true :=
  Asts.L1b.C05_holds_total v cur upd pods f h0 hmono hwf hids

/-- The headline with pod ids given as positions in the snapshot, as the engine and the driver number them. -/
theorem C05_holds_positions (v : SetView) (cur upd : String) (pods : List Pod) (f : Faults) (r : Int)
    (hr : v.replicas = some r) (h0 : 0 ≤ r) (hmono : v.parallel = false) (hwf : wfSnapshot pods = true)
    (hpos : ∀ (i : Nat) (p : Pod), pods[i]? = some p → p.id = i) (hlen : pods.length < freshId) :
    C05 v pods (observe (updateStatefulSet v cur upd pods f).1.acts) = true :=
  Asts.L1b.C05_holds v cur upd pods f r hr h0 hmono hwf (idsOk_of_positions hpos hlen)

/-- **Clause 1** (model actions; DESIGN Appendix C.2 ported): under OrderedReady the creates and deletes of one reconcile
    all target the same ordinal — whatever the spec, the snapshot and the faults. -/
theorem one_ordinal (v : SetView) (cur upd : String) (pods : List Pod) (f : Faults) (hmono : v.parallel = false) :
    Same (cd (updateStatefulSet v cur upd pods f).1.acts) :=
  C05_one_ordinal v cur upd pods f hmono

/-- Clause 1 as the monitor computes it: at most one ordinal is touched by the observed creates and deletes. -/
theorem one_ordinal_observed (v : SetView) (cur upd : String) (pods : List Pod) (f : Faults)
    (hmono : v.parallel = false) :
    ((((observe (updateStatefulSet v cur upd pods f).1.acts).filter (fun a => a.isCreate || a.isDelete)).map
      OAct.ord).eraseDups).length ≤ 1 :=
  C05_touched v cur upd pods f hmono

/-- **Clause 2.** A pod is created at `o` only when every desired ordinal below `o` holds a pod of the snapshot that is
    Running, Ready and not terminating (`HealthyIn pods i` = `∃ p ∈ pods, p.ord = i ∧ p.phase = .running ∧
    p.ready = true ∧ p.terminating = false`). -/
theorem create_predecessors_healthy (v : SetView) (cur upd : String) (pods : List Pod) (f : Faults) (r : Int)
    (hr : v.replicas = some r) (h0 : 0 ≤ r) (hmono : v.parallel = false) {o : Int} {rev : String}
    (h : Action.create o rev ∈ (updateStatefulSet v cur upd pods f).1.acts) :
    ∀ i ∈ desired r v.slots, i < o → HealthyIn pods i :=
  C05_create_pred v cur upd pods f r hr h0 hmono h

/-- **Clause 3.** A scale-down delete at `o` happens only when every desired ordinal holds a healthy pod of the snapshot;
    its target is a pod of the snapshot outside the desired set, and no pod of the snapshot outside the desired set
    (with a name that parses) has a higher ordinal. -/
theorem scale_in_from_the_top (v : SetView) (cur upd : String) (pods : List Pod) (f : Faults) (r : Int)
    (hr : v.replicas = some r) (h0 : 0 ≤ r) (hmono : v.parallel = false) {o : Int} {id : Nat}
    (h : Action.delete o id .scaleDown ∈ (updateStatefulSet v cur upd pods f).1.acts) :
    (∀ i ∈ desired r v.slots, HealthyIn pods i) ∧
    (∃ c ∈ pods, c.ord = o ∧ c.id = id ∧ 0 ≤ o ∧ o ∉ desired r v.slots) ∧
    (∀ c ∈ pods, 0 ≤ c.ord → c.ord ∉ desired r v.slots → c.ord ≤ o) :=
  C05_scaleDown v cur upd pods f r hr h0 hmono h

/-- **Clause 4.** A pod is taken down for an update only when nothing is left to scale in (every pod of the snapshot with
    a parsed ordinal is desired) and every desired ordinal holds a healthy pod. -/
theorem update_only_when_settled (v : SetView) (cur upd : String) (pods : List Pod) (f : Faults) (r : Int)
    (hr : v.replicas = some r) (h0 : 0 ≤ r) (hmono : v.parallel = false) {o : Int} {id : Nat}
    (h : Action.delete o id .update ∈ (updateStatefulSet v cur upd pods f).1.acts) :
    (∀ c ∈ pods, 0 ≤ c.ord → c.ord ∈ desired r v.slots) ∧ (∀ i ∈ desired r v.slots, HealthyIn pods i) :=
  C05_update v cur upd pods f r hr h0 hmono h

/-- The bridge between clauses 3–4 and the monitor: the snapshot-only classifier of `Spec/Reconcile.lean` puts the model's
    scale-down deletes in class `scale`, its replacements of Failed/Succeeded pods in `replace`, and the deletes of its
    update walk in `update` (both policies). -/
theorem classify_why (v : SetView) (cur upd : String) (pods : List Pod) (f : Faults) (r : Int)
    (hr : v.replicas = some r) (h0 : 0 ≤ r) (hids : IdsOk pods) {o : Int} {id : Nat} {why : Why}
    (h : Action.delete o id why ∈ (updateStatefulSet v cur upd pods f).1.acts) :
    classify (desired r v.slots) pods (Action.observe (.delete o id why)) = why.cls :=
  Asts.L1b.classify_why v cur upd pods f r hr h0 hids h

/-! ### non-vacuity: three desired ordinals thinned by a slot (`D = [0, 2, 3]`), pods beyond the range -/

private def pod (n : Nat) (o : Int) (rv : String) : Pod :=
  { id := n, ord := o, phase := .running, ready := true, terminating := false, rev := rv, idOk := true, stOk := true }

private def v0 : SetView :=
  { replicas := some 3, slots := [1], parallel := false, strat := .rolling, ru := some (some 2),
    deleting := false, generation := 1, stCurrentReplicas := 0 }

/-- the hypotheses hold on a concrete snapshot, and the reconcile does something there: it scales in from the top -/
example : v0.replicas = some 3 ∧ v0.parallel = false ∧
    wfSnapshot [pod 0 0 "a", pod 1 2 "a", pod 2 3 "a", pod 3 5 "a", pod 4 7 "a"] = true ∧
    (updateStatefulSet v0 "a" "b" [pod 0 0 "a", pod 1 2 "a", pod 2 3 "a", pod 3 5 "a", pod 4 7 "a"] []).1.acts
      = [.delete 7 4 .scaleDown] := by decide

example : IdsOk [pod 0 0 "a", pod 1 2 "a", pod 2 3 "a", pod 3 5 "a", pod 4 7 "a"] :=
  idsOk_of_positions (by
    intro i p h
    match i, h with
    | 0, h | 1, h | 2, h | 3, h | 4, h => simp at h; subst h; rfl
    | n + 5, h => simp at h) (by decide)

/-- a vacancy is filled only after its predecessors are healthy; an update waits for the scale-in -/
example : (updateStatefulSet v0 "a" "b" [pod 0 0 "a", pod 1 2 "a", pod 2 5 "a"] []).1.acts = [.create 3 "b"] ∧
    (updateStatefulSet v0 "a" "b" [pod 0 0 "a", pod 1 2 "a", pod 2 3 "a"] []).1.acts = [.delete 3 2 .update] := by
  decide

/-- `IdsOk` cannot be dropped: with two snapshot pods sharing an id the monitor misreads the scale-down delete -/
example : C05 { v0 with replicas := some 1, slots := [] } [pod 0 0 "a", pod 0 5 "a"]
    (observe (updateStatefulSet { v0 with replicas := some 1, slots := [] } "a" "a" [pod 0 0 "a", pod 0 5 "a"] []).1.acts)
    = false := by decide

end Asts.C05
