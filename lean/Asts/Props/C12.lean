import Asts.Spec.Reconcile

/-! # C12 — property theorems (under construction) -/
namespace Asts.C12

end Asts.C12
