import Asts.Proofs.L1_c_C12

/-! # C12 — status tells the truth

The status the controller writes after a reconcile that ended `.ok` is, in the model (`runRc` in `Driver/Reconcile.lean`,
`reconcileAndStatus` in `Model/Status.lean`), `completeRollingUpdate v (updateStatefulSet v cur upd pods f).1.status`.
The four theorems below say that the monitors `C12bounds`, `C12gen`, `C12complete` of `Spec/Reconcile.lean` are true on it
for EVERY set view, revision pair, pod list and fault plan (no bound on replicas, slots, pods or faults), and that a
reconcile that issued no action returns exactly the census of the snapshot. Lemmas: `Asts/Proofs/L1_c_*.lean`. -/
namespace Asts.C12
open Asts.L1c

/-- the status the controller writes after this reconcile -/
def written (v : SetView) (cur upd : String) (pods : List Pod) (f : Faults) : Status :=
  completeRollingUpdate v (updateStatefulSet v cur upd pods f).1.status

/-! ## an independently written counting specification -/

/-- how many pods satisfy `q` (plain recursion; does not mention `census`, `filter` or `countP`) -/
def countIf (q : Pod → Prop) [DecidablePred q] : List Pod → Int
  | [] => 0
  | p :: ps => (if q p then 1 else 0) + countIf q ps

/-- a pod counts as ready when it is Running and its Ready condition is true -/
def IsReady (p : Pod) : Prop := p.phase = .running ∧ p.ready = true
/-- a pod counts for revision `x` when the API server has accepted it, it is not being deleted and carries label `x` -/
def IsLiveAt (x : String) (p : Pod) : Prop := p.phase ≠ .none ∧ p.terminating = false ∧ p.rev = x

instance : DecidablePred IsReady := fun p => by unfold IsReady; infer_instance
instance (x : String) : DecidablePred (IsLiveAt x) := fun p => by unfold IsLiveAt; infer_instance

/-- exact census of a snapshot, written without the model's `census` -/
structure ExactCensus (cRev uRev : String) (pods : List Pod) (st : Status) : Prop where
  total   : st.replicas = pods.length
  ready   : st.ready = countIf IsReady pods
  current : st.current = countIf (IsLiveAt cRev) pods
  updated : st.updated = countIf (IsLiveAt uRev) pods

private theorem countIf_eq_filter (q : Pod → Prop) [DecidablePred q] (b : Pod → Bool) (hb : ∀ p, b p = true ↔ q p)
    (l : List Pod) : countIf q l = ((l.filter b).length : Int) := by
  induction l with
  | nil => rfl
  | cons p ps ih =>
    unfold countIf
    rw [ih, List.filter_cons]
    by_cases hq : q p
    · have : b p = true := (hb p).2 hq
      simp [hq, this]; omega
    · have : ¬ b p = true := fun h => hq ((hb p).1 h)
      simp [hq, this]

/-- the model's `census` meets the independent specification -/
theorem census_exact (cur upd : String) (pods : List Pod) : ExactCensus cur upd pods (census cur upd pods) := by
  refine ⟨rfl, ?_, ?_, ?_⟩
  · rw [countIf_eq_filter IsReady Pod.runningAndReady (by intro p; simp [IsReady, Pod.runningAndReady])]; rfl
  · rw [countIf_eq_filter (IsLiveAt cur) (fun p => p.created && !p.terminating && p.rev == cur)
      (by intro p; simp [IsLiveAt, Pod.created, and_assoc])]; rfl
  · rw [countIf_eq_filter (IsLiveAt upd) (fun p => p.created && !p.terminating && p.rev == upd)
      (by intro p; simp [IsLiveAt, Pod.created, and_assoc])]; rfl

/-! ## bounds -/

/-- **C12 (bounds).** If every pod object of the snapshot carries a phase (the precondition under which `monitorRc`
    evaluates `C12.bounds`; the API server stamps `Pending` on create), every status written after a reconcile that ended
    `.ok` has `0 ≤ ready, current, updated ≤ replicas` — for every spec, pod list and fault plan. -/
theorem C12_bounds (v : SetView) (cur upd : String) (pods : List Pod) (f : Faults)
    (hcr : ∀ p ∈ pods, p.created = true) (hok : (updateStatefulSet v cur upd pods f).2 = .ok) :
    C12bounds (written v cur upd pods f) = true := by
  rw [C12bounds_iff]
  apply completeRollingUpdate_bounded
  exact updateStatefulSet_bounded v cur upd pods f hcr _ (Prod.ext rfl hok)

/-- `Prop` reading of `C12_bounds`. -/
theorem C12_bounds_prop (v : SetView) (cur upd : String) (pods : List Pod) (f : Faults)
    (hcr : ∀ p ∈ pods, p.created = true) (hok : (updateStatefulSet v cur upd pods f).2 = .ok) :
    let w := written v cur upd pods f
    0 ≤ w.ready ∧ w.ready ≤ w.replicas ∧ 0 ≤ w.current ∧ w.current ≤ w.replicas ∧ 0 ≤ w.updated ∧ w.updated ≤ w.replicas :=
  (C12bounds_iff _).1 (C12_bounds v cur upd pods f hcr hok)

/-- The status *returned* (before `completeRollingUpdate`) is within the same bounds. -/
theorem C12_bounds_returned (v : SetView) (cur upd : String) (pods : List Pod) (f : Faults)
    (hcr : ∀ p ∈ pods, p.created = true) (hok : (updateStatefulSet v cur upd pods f).2 = .ok) :
    C12bounds (updateStatefulSet v cur upd pods f).1.status = true :=
  (C12bounds_iff _).2 (updateStatefulSet_bounded v cur upd pods f hcr _ (Prod.ext rfl hok))

/-! ## generation -/

/-- **C12 (generation).** The written status carries the generation that was reconciled, and is therefore not lower than
    any stored value that is itself not ahead of the object's generation — whatever `stored` is. -/
theorem C12_generation (v : SetView) (cur upd : String) (pods : List Pod) (f : Faults) (stored : Status)
    (hok : (updateStatefulSet v cur upd pods f).2 = .ok) :
    C12gen v stored (written v cur upd pods f) = true :=
  c12gen_of_post v cur upd pods _ stored (updateStatefulSet_post v cur upd pods f _ (Prod.ext rfl hok))

/-- `Prop` reading of `C12_generation`. -/
theorem C12_generation_prop (v : SetView) (cur upd : String) (pods : List Pod) (f : Faults) (stored : Status)
    (hok : (updateStatefulSet v cur upd pods f).2 = .ok) :
    (written v cur upd pods f).observedGen = v.generation ∧
    (stored.observedGen ≤ v.generation → stored.observedGen ≤ (written v cur upd pods f).observedGen) := by
  have h := C12_generation v cur upd pods f stored hok
  simp only [C12gen, Bool.and_eq_true, beq_iff_eq] at h
  refine ⟨h.1, fun hle => ?_⟩
  have := h.2
  simp only [hle, if_true, decide_eq_true_eq] at this
  exact this

/-! ## completion -/

/-- **C12 (completion).** The written `currentRevision` is either the one the reconcile was given, or it is the update
    revision and then every pod of the snapshot was at the update revision, Running, Ready and not terminating, and the
    reconcile created and deleted nothing. -/
theorem C12_completion (v : SetView) (cur upd : String) (pods : List Pod) (f : Faults)
    (hok : (updateStatefulSet v cur upd pods f).2 = .ok) :
    C12complete cur upd pods (observe (updateStatefulSet v cur upd pods f).1.acts) (written v cur upd pods f) = true :=
  c12complete_of_post v cur upd pods _ (updateStatefulSet_post v cur upd pods f _ (Prod.ext rfl hok))

/-- `Prop` reading of `C12_completion`. -/
theorem C12_completion_prop (v : SetView) (cur upd : String) (pods : List Pod) (f : Faults)
    (hok : (updateStatefulSet v cur upd pods f).2 = .ok)
    (hchg : (written v cur upd pods f).currentRev ≠ cur) :
    (written v cur upd pods f).currentRev = upd ∧
    (∀ p ∈ pods, p.rev = upd ∧ p.healthy = true) ∧
    (∀ a ∈ observe (updateStatefulSet v cur upd pods f).1.acts, a.isCreate = false ∧ a.isDelete = false) := by
  have h := C12_completion v cur upd pods f hok
  simp only [C12complete, Bool.or_eq_true, Bool.and_eq_true, beq_iff_eq, List.all_eq_true, Bool.not_eq_true',
    List.any_eq_false, Bool.or_eq_true, not_or, Bool.not_eq_true] at h
  rcases h with h | h
  · exact absurd h hchg
  · exact ⟨h.1.1, h.1.2, h.2⟩

/-! ## census at a fixed point -/

/-- **C12 (census at a quiescent point), in terms of the model's `census`.** A reconcile that ended `.ok` without issuing
    any action returns exactly the census of its snapshot: total, ready, at current revision, at update revision. -/
theorem C12_census_fixpoint (v : SetView) (cur upd : String) (pods : List Pod) (f : Faults)
    (hok : (updateStatefulSet v cur upd pods f).2 = .ok) (hq : (updateStatefulSet v cur upd pods f).1.acts = []) :
    let st := (updateStatefulSet v cur upd pods f).1.status
    st.replicas = (census cur upd pods).replicas ∧ st.ready = (census cur upd pods).ready ∧
    st.current = (census cur upd pods).current ∧ st.updated = (census cur upd pods).updated := by
  have := census_of_post v cur upd pods _ (updateStatefulSet_post v cur upd pods f _ (Prod.ext rfl hok)) hq
  simp only [this]
  exact ⟨rfl, rfl, rfl, rfl⟩

/-- **The same against the independent counting specification.** -/
theorem C12_census_fixpoint_spec (v : SetView) (cur upd : String) (pods : List Pod) (f : Faults)
    (hok : (updateStatefulSet v cur upd pods f).2 = .ok) (hq : (updateStatefulSet v cur upd pods f).1.acts = []) :
    ExactCensus cur upd pods (updateStatefulSet v cur upd pods f).1.status := by
  obtain ⟨h1, h2, h3, h4⟩ := C12_census_fixpoint v cur upd pods f hok hq
  have hc := census_exact cur upd pods
  exact ⟨h1.trans hc.total, h2.trans hc.ready, h3.trans hc.current, h4.trans hc.updated⟩

/-- **What is written at such a point** is an exact census with respect to the revision names it carries: if the
    completion rule fires, `currentRevision` becomes the update revision and `currentReplicas` the number of live pods
    at it. -/
theorem C12_census_written (v : SetView) (cur upd : String) (pods : List Pod) (f : Faults)
    (hok : (updateStatefulSet v cur upd pods f).2 = .ok) (hq : (updateStatefulSet v cur upd pods f).1.acts = []) :
    ExactCensus (written v cur upd pods f).currentRev (written v cur upd pods f).updateRev pods (written v cur upd pods f) := by
  have hst := census_of_post v cur upd pods _ (updateStatefulSet_post v cur upd pods f _ (Prod.ext rfl hok)) hq
  have hc := census_exact cur upd pods
  unfold written completeRollingUpdate
  rw [hst]
  split_ifs
  · exact ⟨hc.total, hc.ready, hc.updated, hc.updated⟩
  · exact ⟨hc.total, hc.ready, hc.current, hc.updated⟩

/-! ## non-vacuity -/

/-- a snapshot in the middle of a rolling update with a Failed pod, a terminating pod and a condemned pod -/
def exPods : List Pod :=
  [ { id := 0, ord := 0, phase := .running, ready := true, terminating := false, rev := "a", idOk := true, stOk := true },
    { id := 1, ord := 1, phase := .failed, ready := false, terminating := true, rev := "a", idOk := true, stOk := true },
    { id := 2, ord := 2, phase := .running, ready := true, terminating := false, rev := "b", idOk := true, stOk := true },
    { id := 3, ord := 5, phase := .running, ready := true, terminating := false, rev := "c", idOk := true, stOk := true } ]

def exView : SetView :=
  { replicas := some 3, slots := [], parallel := true, strat := .rolling, ru := some (some 0), deleting := false,
    generation := 7, stCurrentReplicas := 2 }

example : (∀ p ∈ exPods, p.created = true) ∧ (updateStatefulSet exView "a" "b" exPods []).2 = .ok ∧
    (updateStatefulSet exView "a" "b" exPods []).1.acts ≠ [] := by decide

/-- a quiescent snapshot (three healthy pods at the update revision): the hypotheses of the census theorems are
    satisfiable, and here the completion rule fires -/
def exQuiet : List Pod :=
  [ { id := 0, ord := 0, phase := .running, ready := true, terminating := false, rev := "b", idOk := true, stOk := true },
    { id := 1, ord := 1, phase := .running, ready := true, terminating := false, rev := "b", idOk := true, stOk := true },
    { id := 2, ord := 2, phase := .running, ready := true, terminating := false, rev := "b", idOk := true, stOk := true } ]

example : (updateStatefulSet exView "a" "b" exQuiet []).2 = .ok ∧ (updateStatefulSet exView "a" "b" exQuiet []).1.acts = [] ∧
    (written exView "a" "b" exQuiet []).currentRev = "b" ∧ (written exView "a" "b" exQuiet []).current = 3 := by decide

/-- the hypothesis of `C12_bounds` is needed: a pod object without a phase (never produced by an API server) outside the
    desired set is not counted by the census but is deleted, and `currentReplicas` goes to -1 -/
example :
    C12bounds (written { exView with replicas := some 0 } "a" "b"
      [{ id := 0, ord := 5, phase := .none, ready := false, terminating := false, rev := "a", idOk := true, stOk := true }] [])
    = false := by decide

end Asts.C12
