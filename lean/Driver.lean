import Asts.Driver.Ordinals
import Asts.Driver.Reconcile
import Asts.Driver.Sync
import Asts.Driver.World
import Asts.Driver.WorldEdits
import Asts.Driver.Events
import Asts.Driver.Upgrade
import Asts.Driver.PodControl
import Asts.Driver.Watch
import Asts.Driver.Annot
import Asts.Driver.Defaults
import Asts.Driver.Codec
import Asts.Driver.Hijack
import Asts.Driver.Patch
open Asts.Driver

/-- one input line `<case> => <impl observation>`; one output line `<model observation>\t<monitor verdict>\t<branch tag>` -/
def dispatch (engine : String) (line : String) : String :=
  match line.splitOn " => " with
  | [cas, obs] =>
    match engine with
    | "ordinals" => stepOrdinals cas obs
    | "reconcile" => stepReconcile cas obs
    | "sync" => stepSync cas obs
    | "syncmig" => stepSync cas obs
    | "world" => stepWorld cas obs
    | "worldedit" => stepWorldEdit cas obs
    | "events" => stepEvents cas obs
    | "events-pinned" => stepEventsPinned cas obs
    | "upgrade" => stepUpgrade cas obs
    | "podcontrol" => stepPodControl cas obs
    | "watch" => stepWatch cas obs
    | "watchpinned" => stepWatchPinned cas obs
    | "annot" => AnnotDrv.stepAnnot cas obs
    | "defaults" => DefaultsDrv.stepDefaults cas obs
    | "codec" => CodecDrv.stepCodec cas obs
    | "hijack" => HijackDrv.stepHijack cas obs
    | "patch" => stepPatch cas obs
    | _ => "unknown-engine\tok\tbad"
  | _ => "bad-line\tok\tbad"

partial def loop (engine : String) (h : IO.FS.Stream) (out : IO.FS.Stream) : IO Unit := do
  let line ← h.getLine
  if line.isEmpty then return ()
  let l := if line.endsWith "\n" then (line.dropEnd 1).toString else line
  out.putStrLn (dispatch engine l)
  loop engine h out

def main (args : List String) : IO UInt32 := do
  match args with
  | [engine] =>
    loop engine (← IO.getStdin) (← IO.getStdout)
    return 0
  | _ =>
    IO.eprintln "usage: asts-model <engine>   (reads '<case> => <obs>' lines on stdin)"
    return 2
