#!/bin/bash
# rebuild harness (against /repo working tree) and the model driver
set -e
cd "$(dirname "$0")/.."
export GOFLAGS=-mod=mod GOPROXY=off GOSUMDB=off GOTOOLCHAIN=local CGO_ENABLED=0
(cd harness && go build -tags verif -o ../.work/bin/harness .)
(cd lean && lake build asts-model 2>&1 | grep -v "^trace" | grep -E "error|✖" || true)
