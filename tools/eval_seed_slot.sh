#!/bin/bash
# usage: evalslot.sh <slot> <out-dir> <n> <Cnn>...   (parallel-safe variant of tools/eval_seed.sh: own copy of /verif and of the repository)
set -u
S=/root/work/ev/s$1; OUT=$(realpath $2); N=$3; shift 3
export GOFLAGS=-mod=mod GOPROXY=off GOSUMDB=off GOTOOLCHAIN=local
WT=$S/repo
git -C $WT checkout -q -- . ; git -C $WT clean -fdq
P=$OUT/patch$N.diff; D=$OUT/demo${N}_test.go
hdr=$(head -1 $D)
pkg=$(echo "$hdr" | grep -oE '(pkg|client)/[A-Za-z0-9_/.]+' | head -1 | sed 's,/$,,')
run=$(echo "$hdr" | grep -oE "\-run '?[A-Za-z0-9_|^$]+'?" | head -1 | sed "s/-run //; s/'//g")
case "$pkg" in client/*) mod=$WT/client; rel=${pkg#client/};; *) mod=$WT; rel=$pkg;; esac
echo "[seed] $OUT #$N package=$pkg run=$run"
L=$S/seedchk.log
cp $D $WT/$pkg/zz_seed_demo_test.go
(cd $mod && go test -count=1 -run "$run" ./$rel/ >$L 2>&1) && echo "[seed] demo passes on the unmodified tree" || { echo "[seed] DEMO FAILS WITHOUT THE PATCH"; tail -5 $L; }
git -C $WT apply $P || { echo "[seed] patch does not apply"; exit 2; }
(cd $mod && go test -count=1 -run "$run" ./$rel/ >$L 2>&1) && echo "[seed] DEMO PASSES WITH THE PATCH (not a breaking change?)" || echo "[seed] demo fails with the patch: $(grep -m1 -E '^\s+\S+_test.go|--- FAIL' $L | head -1 | cut -c1-160)"
rm $WT/$pkg/zz_seed_demo_test.go
(cd $WT && go build ./... && go build -tags verif ./... && go test -count=1 ./pkg/... >$L 2>&1 && cd client && go build ./... && go test -count=1 ./... >>$L 2>&1) && echo "[seed] builds (incl. -tags verif) and the existing tests pass with the patch" || { echo "[seed] EXISTING TESTS OR BUILD FAIL WITH THE PATCH"; grep -E "FAIL|error" $L | head -5; }
cd $S/verif
for c in "$@"; do VERIF_REPO=$WT ./check $c 2>&1 | grep -E "VIOLATION|KNOWN|^\[" | head -4; done
git -C $WT checkout -q -- . ; git -C $WT clean -fdq
