#!/bin/bash
# usage: tools/difftool.sh <engine> <n|file>   -- ad-hoc: run harness + model, summarise differences / monitor failures / tags
tools/rebuild.sh
E=$1; N=${2:-20000}
H=.work/bin/harness; M=lean/.lake/build/bin/asts-model
if [ -f "$N" ]; then cat "$N" | grep -v '^#' | $H $E run > .work/$E.txt; else $H $E gen $N | $H $E run > .work/$E.txt; fi
$M $E < .work/$E.txt > .work/$E.out
paste -d'\t' <(sed 's/.* => //; s/ site=.*//' .work/$E.txt) .work/$E.out | awk -F'\t' '{ if ($1!=$2) { d++; if (d<=3) { print "DIFF impl : " $1; print "     model: " $2; print "     line " NR } } if ($3!="ok") { n=split($3,cl,","); for(i=1;i<=n;i++){ m[cl[i]]++; if (!(cl[i] in first)) first[cl[i]]=NR } } t[$4]++ } END { print "diff", d+0; for (k in m) print "mon", k, m[k], "first line", first[k]; for (k in t) print "tag", k, t[k] }'
