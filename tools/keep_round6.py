import json,os,re,shutil,sys
INFO={
 "C11-1":("the pause is honoured only when status.currentRevision == status.updateRevision","a template edit, one reconcile (update != current), THEN the pause annotation: the paused set keeps being reconciled"),
 "C11-2":("a paused set whose generation is ahead of a non-zero observedGeneration is let through once","reconcile, pause, then a spec edit (replicas) while paused: one full reconcile although the flag is up"),
 "C14-1":("rollOutPending(set) (status.updateRevision != status.currentRevision) forces monotonic = true","a template edit recorded in the status (OnDelete / partition keep it pending), THEN a scale edit under Parallel: one create, no delete"),
 "C14-2":("'one pod at a time' guard moved in front of the condemned loop: early return while a roll-out is pending and a desired replica is unhealthy","a roll-out in flight (recreated pod still Pending) when a scale-in edit arrives under Parallel: the condemned pod is not deleted"),
 "C07-1":("a Failed/Succeeded pod that carried the update revision is rebuilt from the update set, not through newVersionedStatefulSetPod","template edit with partition 1 rolled out, THEN partition raised to 3, then pod 1 fails: recreated at the update revision below the partition"),
 "C07-2":("update walk waits only for !isRunningAndReady pods at the update revision: a Running, Ready, terminating one no longer stops it","A->B (partition 2), revert to A (pod 2 terminating), B again with partition 1 while pod 2 still terminates: two pods down (Parallel)"),
 "C08-1":("truncateHistory's live set uses set.Status.UpdateRevision (previous reconcile) instead of update.Name","A->B rolled out, then revert to A together with a lowered revisionHistoryLimit: the re-used revision is deleted in the reconcile that names it"),
 "C08-2":("update.Name dropped from truncateHistory's live set","limit 0, scale-out pod still Pending, then a template edit: the new revision is created and deleted on alternating reconciles"),
 "C05-1":("the update loop's return slipped inside the `revision == currentRevision` block: no stop after deleting a pod of a third revision","two template edits in order (A->B stopped at the partition, then C with partition 0): two pods deleted in one reconcile"),
 "C05-2":("the Running-and-Ready gate of the replica loop skips pods that are outdated under RollingUpdate","a template edit arriving while pod 1 is still Pending: pod 2 is created while its predecessor is unhealthy"),
 "C13-1":("truncateHistory skips pods below the partition when marking live revisions","A->B with partition 1, then B->C with the partition raised to 3: rB is deleted while pods 1, 2 run it"),
 "C13-2":("pod-pinned revisions take a place in the trim budget (history = all but current/update, oldest len-limit walked, live ones skipped)","limit 1, A->B rolled out, ->C stuck Pending, then ->D: the only unused revision is deleted"),
 "C03-1":("delete-slots read from the update ControllerRevision (annotations copied at creation) instead of the set","slots [1] with template A, then template B with the slots cleared, then back to A: the re-used revision's stale [1] deletes live pod 1"),
 "C03-2":("a second loop deletes every pod below the partition that is not at currentRevision","a roll-out half done (pod 2 at B) when the partition is raised to 3: pod 2, live, desired and up to date, is deleted"),
 "C02-1":("newVersionedStatefulSetPod compares currentReplicas / partition with the COUNT of pods below (ordinal minus slots below), the walk still uses ordinals","slot below the partition, then a template edit: one ordinal is claimed by both rules and flaps for ever"),
 "C02-2":("update walk skipped when status.currentRevision == status.updateRevision == update revision","A->B half done, then revert to A: after the first roll-back reconcile the status says current = update = A and the remaining B pods stay"),
}
ORIGIN="round 6 (user edit histories): written by an independent sub-agent that saw only the property text, a scratch worktree of /repo and one-line descriptions of the earlier changes to avoid; the change had to manifest only after a SEQUENCE of user edits of the set with reconciles in between — change 1 through two edits in a particular order, change 2 through one edit arriving while the effects of an earlier state are still in flight"
for key,(change,needs) in INFO.items():
    p,n=key.split('-')
    out=f"/tmp/seed/{p}-r?-out"
    log=f"/root/work/ev/{p}-r?-{n}.log"
    if not os.path.exists(log): log=f"/root/work/ev/{p}-{n}.log"
    if not os.path.exists(log): print("no log",key); continue
    t=open(log).read()
    ok = "demo passes on the unmodified tree" in t and "demo fails with the patch" in t and "existing tests pass with the patch" in t
    conc=[];weak=[];quiet=[]
    for c in sorted(set(re.findall(r"^\[(C\d\d)\]",t,re.M))|set(re.findall(r"^VIOLATION property=(C\d\d)",t,re.M))):
        v=[l for l in t.splitlines() if l.startswith(f"VIOLATION property={c} ")]
        if any("no-failing-input-found" not in l for l in v): conc.append(c)
        elif v: weak.append(c)
        else: quiet.append(c)
    print(key, "confirmed" if ok else "NOT CONFIRMED", "concrete:",conc,"corr-only:",weak,"quiet:",quiet)
    if not ok or not (conc or weak): continue
    if len(sys.argv)>1:
        d=f"/verif/seeded/agent6-{p}-{n}"; os.makedirs(d,exist_ok=True)
        shutil.copy(f"{out}/patch{n}.diff",f"{d}/patch.diff"); shutil.copy(f"{out}/demo{n}_test.go",f"{d}/demo_test.go"); shutil.copy(f"{out}/notes.md",f"{d}/notes.md")
        det=(", ".join(conc)+" monitors, concrete replays" if conc else "")+(("; " if conc else "")+", ".join(weak)+" as a broken correspondence (no-failing-input-found)" if weak else "")
        json.dump({"property":p,"origin":ORIGIN,"change":change,"needs":needs,"missed_at_first":(p not in conc),
          "demonstration":"demo_test.go: fails with the patch, passes without; builds (also -tags verif) and the existing tests of both modules pass with the patch — confirmed in a scratch clone (tools/eval_seed.sh, parallel variant)",
          "detected_by":det,"ran":f"tools/eval_seed.sh /tmp/seed/{p}-r?-out {n} "+" ".join(conc+weak+quiet)},open(f"{d}/meta.json","w"),indent=1,ensure_ascii=False)
