#!/bin/bash
# Mutation sanity check of the `patch` engine. usage: tools/mutations-patch.sh <repo worktree> [n]
# harness/go.mod must already `replace` the two repo modules by that worktree. Each mutation is a small python edit of the worktree, reverted afterwards.
WT=$1; N=${2:-1500}
cd "$(dirname "$0")/.."
export GOFLAGS=-mod=mod GOPROXY=off GOSUMDB=off GOTOOLCHAIN=local CGO_ENABLED=0
U=pkg/controller/statefulset/stateful_set_utils.go
C=pkg/controller/statefulset/stateful_set_control.go
H=client/apis/apps/v1/helper/hijack.go
K=pkg/third_party/k8s/controller_history.go
mut() { # name file old new
  name=$1; file=$2
  python3 - "$WT/$file" "$3" "$4" <<'PY'
import sys
p, old, new = sys.argv[1], sys.argv[2], sys.argv[3]
s = open(p).read()
assert s.count(old) >= 1, "pattern not found: " + old
open(p, "w").write(s.replace(old, new, 1))
PY
  if [ $? -ne 0 ]; then echo "== $name: PATTERN NOT FOUND"; return; fi
  if (cd harness && go build -tags verif -o ../.work/bin/harness-mut . 2> ../.work/scratch/mut-build.log); then
    .work/bin/harness-mut patch gen $N | .work/bin/harness-mut patch run > .work/mut.txt
    lean/.lake/build/bin/asts-model patch < .work/mut.txt > .work/mut.out
    echo "== $name: $(paste -d'\t' <(sed 's/.* => //; s/ site=.*//' .work/mut.txt) .work/mut.out | awk -F'\t' '{ if ($1!=$2) d++; if ($3!="ok") { n=split($3,cl,","); for(i=1;i<=n;i++) m[cl[i]]++ } } END { printf "diff %d", d+0; for (k in m) printf " | %s %d", k, m[k]; print "" }')"
  else
    echo "== $name: DOES NOT COMPILE"; head -5 .work/scratch/mut-build.log
  fi
  git -C "$WT" checkout -q -- "$file"
}
mut M1-patch-records-replicas $U 'specCopy["template"] = template' 'specCopy["template"] = template; specCopy["replicas"] = spec["replicas"]'
mut M2-patch-records-annotations $U 'objCopy["spec"] = specCopy' 'objCopy["spec"] = specCopy; objCopy["metadata"] = map[string]interface{}{"annotations": raw["metadata"].(map[string]interface{})["annotations"]}'
mut M3-conversion-applies-defaults $H '	newSet.TypeMeta.APIVersion = asv1.SchemeGroupVersion.String()
	return newSet, nil' '	newSet.TypeMeta.APIVersion = asv1.SchemeGroupVersion.String()
	asv1.SetObjectDefaults_StatefulSet(newSet)
	return newSet, nil'
mut M4-hash-fnv1a $C 'hf := fnv.New32()' 'hf := fnv.New32a()'
mut M5-apply-merges-instead-of-replacing $U 'patched, err := strategicpatch.StrategicMergePatch([]byte(runtime.EncodeOrDie(patchCodec, clone)), revision.Data.Raw, clone)' 'patched, err := strategicpatch.StrategicMergePatch([]byte(runtime.EncodeOrDie(patchCodec, clone)), bytes.Replace(revision.Data.Raw, []byte(`"$patch":"replace",`), nil, 1), clone)'
mut M6-match-ignores-data $U 'return bytes.Equal(patch, history.Data.Raw), nil' 'return len(patch) > 0 && !bytes.Equal(nil, history.Data.Raw), nil'
mut M7-name-truncated-at-200 $K 'if len(prefix) > 223 {
		prefix = prefix[:223]' 'if len(prefix) > 200 {
		prefix = prefix[:200]'
mut M8-revision-labels-from-set $U 'set.Spec.Template.Labels,
		runtime.RawExtension{Raw: patch},' 'set.Labels,
		runtime.RawExtension{Raw: patch},'
mut M9-directive-merge $U 'template["$patch"] = "replace"' 'template["$patch"] = "merge"'
mut M10-patch-drops-template-metadata $U 'template["$patch"] = "replace"' 'template["$patch"] = "replace"; delete(template, "metadata")'
mut M11-probe-hashed-as-byte $C 'hf.Write([]byte(strconv.FormatInt(int64(*probe), 10)))' 'hf.Write([]byte{byte(*probe)}); _ = strconv.Itoa'
rm -f .work/mut.txt .work/mut.out .work/bin/harness-mut
