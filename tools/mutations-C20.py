import sys
F='/root/work/watch/repo-wt/client/apis/apps/v1/helper/hijack.go'
src=open('/root/work/watch/verif/.work/hijack.fixed.go').read()
M={
 'M1a-panic-on-nonset': ('''			if asts, ok := event.Object.(*asv1.StatefulSet); ok {
				sts, err := ToBuiltinStatefulSet(asts)
				if err != nil {
					panic(err)
				}
				event.Object = sts
			}''','''			asts, ok := event.Object.(*asv1.StatefulSet)
			if !ok {
				panic("unreachable")
			}
			sts, err := ToBuiltinStatefulSet(asts)
			if err != nil {
				panic(err)
			}
			event.Object = sts'''),
 'M1b-plain-send': ('''			select {
			case w.result <- event:
			case <-w.done:
				return
			}''','''			w.result <- event'''),
 'M2-drop-bookmarks': ('''			select {
			case w.result <- event:''','''			if event.Type == watch.Bookmark {
				continue
			}
			select {
			case w.result <- event:'''),
 'M3-type-not-preserved': ('''			select {
			case w.result <- event:''','''			if event.Type == watch.Deleted {
				event.Type = watch.Modified
			}
			select {
			case w.result <- event:'''),
 'M4-no-close': ('''	defer close(w.result)
''',''''''),
 'M5-stop-not-idempotent': ('''	if !w.stopped {
		w.stopped = true
		// release receive() if it is blocked sending to a consumer that has gone away
		close(w.done)
		w.source.Stop()
	}''','''	w.stopped = true
	// release receive() if it is blocked sending to a consumer that has gone away
	close(w.done)
	w.source.Stop()'''),
 'M6-exit-after-error': ('''			case w.result <- event:
''','''			case w.result <- event:
				if event.Type == watch.Error {
					return
				}
'''),
 'M7-no-conversion': ('''				event.Object = sts
''','''				_ = sts
'''),
 'M11-stop-forgets-source': ('''		close(w.done)
		w.source.Stop()''','''		close(w.done)'''),
 'M12-skip-event-while-stopping': ('''			case <-w.done:
				return
			}''','''			case <-w.done:
				continue
			}'''),
 'M13-duplicate-modified': ('''			select {
			case w.result <- event:
			case <-w.done:
				return
			}''','''			select {
			case w.result <- event:
			case <-w.done:
				return
			}
			if event.Type == watch.Modified {
				select {
				case w.result <- event:
				case <-w.done:
					return
				}
			}'''),
}
name=sys.argv[1]
if name=='restore':
    open(F,'w').write(src); sys.exit(0)
a,b=M[name]
assert src.count(a)==1, name
open(F,'w').write(src.replace(a,b))
