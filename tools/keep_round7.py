import json,os,re,shutil,sys
INFO={
 "C16-1":("set UpdateFunc skips the enqueue when the OLD object carried the pause annotation","pause, (edit while paused), then un-pause: the un-pause event — old paused, new not — is dropped"),
 "C16-2":("sync returns a sentinel for a paused set; processNextWorkItem neither re-queues nor Forgets the key","N failing reconciles, then the user pauses the set while the key backs off: the failure count survives the silent reconcile"),
 "C17-1":("Upgrade: when the Advanced set exists and its spec equals the built-in one, the revision marking and the spec Update are skipped","run 1 interrupted after Create, template A->B->A on the built-in set, re-run: the revision of B is left unmarked when the built-in set is deleted"),
 "C17-2":("Upgrade: the spec Update is skipped when the Advanced set's status already matches","run 1 interrupted at the final Delete, the user scales the built-in set, re-run before the edit is observed: the Advanced set keeps the old replicas"),
 "C04-1":("with no delete-slots annotation on the set the slots are read from the update revision's annotations","slot 1 listed, template change (revision records [1]), then the slot cleared with replicas 3: create at 3, pod 1 never re-created"),
 "C04-2":("census loop: early continue for a live pod at a third revision also skips filing it into replicas / condemned","a template edit overtaking a half-done roll-out: the pod at the abandoned revision is invisible, create at its occupied ordinal"),
 "C09-1":("updateControllerRevision ignores the object returned next to a failed Update (`if updated != nil { clone = updated }` dropped)","template A->B->A, then Conflict on the renumbering Update followed by a failing GET: the retry sees its own clone as done, success without a write"),
 "C09-2":("update-walk delete turned into a switch: in the 'superseded revision' branch the error is shadowed and only logged","a template edit C while A->B is half done, and the delete of the pod at B fails: success reported, nothing retries"),
 "C18-1":("ListRevisions keeps marker-found revisions only while they are orphans","Upgrade, reconcile (label-sync + adoption), Upgrade AGAIN (labels stripped from adopted revisions), reconcile: the history comes back empty"),
 "C18-2":("Upgrade writes the status only on the create path","built-in set mid roll-out, first Upgrade interrupted between Create and UpdateStatus, retry: the revisions / counts of the status are never handed over"),
 "C10-1":("ListRevisions keeps a foreign-owned revision when the set's status names it","a predecessor's revision under the probed name lands in the status, then template A->B and back: the roll-back renumbers the foreign revision"),
 "C10-2":("status updater's conflict retry re-uses the lister's object without DeepCopy","a user edit racing an in-flight status write (Conflict): the retry writes the new status into the cached object"),
 "C06-1":("ApplyRevision restores a revision with a JSON merge patch instead of a strategic merge patch: `$patch: replace` becomes an ordinary key, the old template is MERGED into the live one","template A->B held by a partition, scale in at slot 0, scale out at slot 0 again: pod 0 is labelled A but carries B's template labels / annotations / nodeSelector"),
 "C06-2":("the replacement of a Failed/Succeeded pod is built from `set` instead of `currentSet`","pod 0 Failed below the partition when a template edit arrives: the replacement is labelled with the current revision and runs the new template"),
 "C12-1":("guard `revision == currentRevision` before status.CurrentReplicas-- dropped at the update-walk delete","A->B rolled to the last pod, then B->C: deleting a pod at the third revision writes currentReplicas = -1"),
 "C12-2":("the two independent decrements at the condemned delete restructured into if/else","roll-out A->B nearly done, then template C plus a scale-in at a slot: the condemned pod at B is charged to currentReplicas (-1)"),
}
ORIGIN="round 7 (user edit histories, second half of the properties; for C16 / C17 / C18 the steps of an upgrade, re-runs of the helper and events in a particular order count as history steps): written by an independent sub-agent that saw only the property text, a scratch worktree of /repo and one-line descriptions of the earlier changes to avoid; the change had to manifest only after a SEQUENCE of user edits of the set with reconciles in between — change 1 through two edits in a particular order, change 2 through one edit arriving while the effects of an earlier state are still in flight"
for key,(change,needs) in INFO.items():
    p,n=key.split('-')
    out=f"/tmp/seed/{p}-r7-out"
    log=f"/root/work/ev/{p}-r7-{n}.log"
    if not os.path.exists(log): log=f"/root/work/ev/{p}-{n}.log"
    if not os.path.exists(log): print("no log",key); continue
    t=open(log).read()
    ok = "demo passes on the unmodified tree" in t and "demo fails with the patch" in t and "existing tests pass with the patch" in t
    conc=[];weak=[];quiet=[]
    for c in sorted(set(re.findall(r"^\[(C\d\d)\]",t,re.M))|set(re.findall(r"^VIOLATION property=(C\d\d)",t,re.M))):
        v=[l for l in t.splitlines() if l.startswith(f"VIOLATION property={c} ")]
        if any("no-failing-input-found" not in l for l in v): conc.append(c)
        elif v: weak.append(c)
        else: quiet.append(c)
    print(key, "confirmed" if ok else "NOT CONFIRMED", "concrete:",conc,"corr-only:",weak,"quiet:",quiet)
    if not ok or not (conc or weak): continue
    if len(sys.argv)>1:
        d=f"/verif/seeded/agent7-{p}-{n}"; os.makedirs(d,exist_ok=True)
        shutil.copy(f"{out}/patch{n}.diff",f"{d}/patch.diff"); shutil.copy(f"{out}/demo{n}_test.go",f"{d}/demo_test.go"); shutil.copy(f"{out}/notes.md",f"{d}/notes.md")
        det=(", ".join(conc)+" monitors, concrete replays" if conc else "")+(("; " if conc else "")+", ".join(weak)+" as a broken correspondence (no-failing-input-found)" if weak else "")
        json.dump({"property":p,"origin":ORIGIN,"change":change,"needs":needs,"missed_at_first":(p not in conc),
          "demonstration":"demo_test.go: fails with the patch, passes without; builds (also -tags verif) and the existing tests of both modules pass with the patch — confirmed in a scratch clone (tools/eval_seed.sh, parallel variant)",
          "detected_by":det,"ran":f"tools/eval_seed.sh /tmp/seed/{p}-r7-out {n} "+" ".join(conc+weak+quiet)},open(f"{d}/meta.json","w"),indent=1,ensure_ascii=False)
