#!/usr/bin/env python3
"""Mutation sanity of the `worldedit` engine: apply each change to a worktree of the repository, build the harness against it,
run generated histories through the real (changed) code and the model, print the monitor clauses that fail.
usage: tools/mutations_worldedit.py <repo worktree> [n cases]"""
import os, re, subprocess, sys

HERE = os.path.dirname(os.path.dirname(os.path.abspath(__file__)))
WT = sys.argv[1]
N = sys.argv[2] if len(sys.argv) > 2 else "3000"
ONLY = sys.argv[3].split(",") if len(sys.argv) > 3 else None
SS = "pkg/controller/statefulset/stateful_set.go"
SC = "pkg/controller/statefulset/stateful_set_control.go"
SU = "pkg/controller/statefulset/stateful_set_utils.go"
PAUSE = """	if helper.GetPausedReconcile(set) {
		klog.V(4).Infof("StatefulSet %v/%v is paused, skipping", set.Namespace, set.Name)
		return nil
	}
"""
STRUCT_END = """	queue workqueue.RateLimitingInterface
}
"""

MUTS = {
    "i-pause-flag-cached-by-generation": [
        (SS, STRUCT_END, "	queue workqueue.RateLimitingInterface\n	pauseCache sync.Map\n}\n"),
        (SS, PAUSE, """	pauseKey := fmt.Sprintf("%s/%s@%d", set.Namespace, set.Name, set.Generation)
	pausedV, seen := ssc.pauseCache.Load(pauseKey)
	if !seen {
		pausedV = helper.GetPausedReconcile(set)
		ssc.pauseCache.Store(pauseKey, pausedV)
	}
	if pausedV.(bool) {
		return nil
	}
"""),
    ],
    "ii-getPatch-includes-replicas": [
        (SU, '	specCopy["template"] = template\n', '	specCopy["template"] = template\n	specCopy["replicas"] = spec["replicas"]\n'),
    ],
    "iii-unpause-ignored-for-one-reconcile": [
        (SS, STRUCT_END, "	queue workqueue.RateLimitingInterface\n	wasPaused sync.Map\n}\n"),
        (SS, PAUSE, """	if helper.GetPausedReconcile(set) {
		ssc.wasPaused.Store(key, true)
		return nil
	}
	if _, was := ssc.wasPaused.Load(key); was {
		ssc.wasPaused.Delete(key)
		return nil
	}
"""),
    ],
    "iv-revert-creates-a-new-revision": [
        (SC, "	} else if equalCount > 0 {\n", "	} else if equalCount > 0 && updateRevision.Revision < 0 {\n"),
    ],
    "v-delete-slots-edit-ignored-until-generation-changes": [
        (SS, STRUCT_END, "	queue workqueue.RateLimitingInterface\n	slotsSeen sync.Map\n}\n"),
        (SS, PAUSE, PAUSE + """	{
		type seenSlots struct {
			gen   int64
			value string
			has   bool
		}
		v, has := set.Annotations[helper.DeleteSlotsAnn]
		if old, ok := ssc.slotsSeen.Load(key); ok && old.(seenSlots).gen == set.Generation {
			set = set.DeepCopy()
			if set.Annotations == nil {
				set.Annotations = map[string]string{}
			}
			if old.(seenSlots).has {
				set.Annotations[helper.DeleteSlotsAnn] = old.(seenSlots).value
			} else {
				delete(set.Annotations, helper.DeleteSlotsAnn)
			}
		} else {
			ssc.slotsSeen.Store(key, seenSlots{set.Generation, v, has})
		}
	}
"""),
    ],
    "vi-slots-forgotten-in-the-range-test": [
        (SC, "		if ord := getOrdinal(pods[i]); 0 <= ord && ord < replicaCount && !deleteSlots.Has(int32(ord)) {",
             "		if ord := getOrdinal(pods[i]); 0 <= ord && ord < int(*set.Spec.Replicas) && !deleteSlots.Has(int32(ord)) {"),
        (SC, "		} else if ord >= replicaCount || deleteSlots.Has(int32(ord)) {",
             "		} else if ord >= int(*set.Spec.Replicas) || deleteSlots.Has(int32(ord)) {"),
    ],
    "vii-revert-reuses-without-renumbering": [
        (SC, """		updateRevision, err = ssc.updateControllerRevision(
			equalRevisions[equalCount-1],
			updateRevision.Revision)
		if err != nil {
			return nil, nil, collisionCount, err
		}
""", """		updateRevision = equalRevisions[equalCount-1]
"""),
    ],
    "ix-any-spec-change-restarts-the-top-pod": [
        (SC, "		if getPodRevision(replicas[target]) != updateRevision.Name && !isTerminating(replicas[target]) {",
             "		if (getPodRevision(replicas[target]) != updateRevision.Name || set.Generation != set.Status.ObservedGeneration) && !isTerminating(replicas[target]) {"),
    ],
    "viii-pause-checked-after-revision-adoption": [
        (SS, PAUSE, ""),
        (SS, """	if err := ssc.adoptOrphanRevisions(set); err != nil {
		klog.Errorf("adoptOrphanRevisions: %v\\n", err)
		return err
	}
""", """	if err := ssc.adoptOrphanRevisions(set); err != nil {
		klog.Errorf("adoptOrphanRevisions: %v\\n", err)
		return err
	}
""" + PAUSE),
    ],
}


def sh(cmd, **kw):
    return subprocess.run(cmd, shell=True, stdout=subprocess.PIPE, stderr=subprocess.STDOUT, text=True, **kw)


def main():
    env = dict(os.environ, GOFLAGS="-mod=mod", GOPROXY="off", GOSUMDB="off", GOTOOLCHAIN="local", CGO_ENABLED="0")
    gomod = os.path.join(HERE, "harness", "go.mod")
    orig = open(gomod).read()
    cases = os.path.join(HERE, ".work", "we-mut-cases.txt")
    os.makedirs(os.path.join(HERE, ".work", "bin"), exist_ok=True)
    r = sh("cd %s && tools/rebuild.sh && .work/bin/harness worldedit gen %s > %s" % (HERE, N, cases), env=env)
    if r.returncode != 0:
        print(r.stdout)
        sys.exit(1)
    try:
        mod = re.sub(r"(replace github.com/pingcap/advanced-statefulset/client =>) \S+", r"\1 " + WT + "/client", orig)
        mod = re.sub(r"(replace github.com/pingcap/advanced-statefulset =>) \S+", r"\1 " + WT, mod)
        open(gomod, "w").write(mod)
        for name, edits in MUTS.items():
            if ONLY and not any(name.startswith(o) for o in ONLY):
                continue
            sh("git -C %s checkout -q ." % WT)
            ok = True
            for path, old, new in edits:
                p = os.path.join(WT, path)
                s = open(p).read()
                if old not in s:
                    print(name, ": anchor not found in", path)
                    ok = False
                    break
                s = s.replace(old, new, 1)
                if "sync.Map" in new and '\t"sync"\n' not in s:
                    s = s.replace('import (\n', 'import (\n\t"sync"\n', 1)
                open(p, "w").write(s)
            if not ok:
                continue
            b = sh("cd %s/harness && go build -tags verif -o ../.work/bin/harness-mut ." % HERE, env=env)
            if b.returncode != 0:
                print(name, ": does not compile\n", b.stdout[-1500:])
                continue
            sh("cd %s && .work/bin/harness-mut worldedit run < %s > .work/we-mut.txt && lean/.lake/build/bin/asts-model worldedit < .work/we-mut.txt > .work/we-mut.out" % (HERE, cases), env=env)
            fails, diffs, first = {}, 0, {}
            impl = [l.split(" => ", 1)[1].split(" site=")[0] if " => " in l else l for l in open(os.path.join(HERE, ".work/we-mut.txt")).read().split("\n") if l]
            case_lines = [l.split(" => ", 1)[0] for l in open(os.path.join(HERE, ".work/we-mut.txt")).read().split("\n") if l]
            for k, l in enumerate(open(os.path.join(HERE, ".work/we-mut.out")).read().split("\n")):
                if not l:
                    continue
                f = l.split("\t")
                if f[0] != impl[k]:
                    diffs += 1
                if len(f) > 1 and f[1] != "ok":
                    for c in f[1].split(","):
                        fails[c] = fails.get(c, 0) + 1
                        first.setdefault(c, case_lines[k])
            print("%-55s diff=%d monitors=%s" % (name, diffs, " ".join("%s:%d" % kv for kv in sorted(fails.items())) or "NONE"))
            for c, l in sorted(first.items()):
                print("    first %s: %s" % (c, l[:160]))
                with open(os.path.join(HERE, ".work", "we-mut-witness.txt"), "a") as wf:
                    wf.write("# %s %s\n%s\n" % (name, c, l))
    finally:
        open(gomod, "w").write(orig)
        sh("git -C %s checkout -q ." % WT)


main()
