#!/bin/bash
# Regression of the machinery itself: every kept seeded change (seeded/*/patch.diff) is applied to the repository named by
# VERIF_REPO (default /repo), the checks named in its meta.json (property + every Cnn mentioned in detected_by) are run, and the
# change is undone. Prints one line per seed: CAUGHT (a concrete replay), WEAK (only no-failing-input-found) or MISSED.
cd "$(dirname "$0")/.."
R=${VERIF_REPO:-/repo}
for d in seeded/*/; do
  id=$(basename $d)
  [ -f $d/patch.diff ] && [ -f $d/meta.json ] || continue
  checks=$(python3 - "$d/meta.json" <<'PY'
import json,re,sys
m=json.load(open(sys.argv[1]))
det=m.get('detected_by','')
if isinstance(det,list): det=' '.join(det)
cs=[m.get('property','')]+re.findall(r'C\d\d',det)
seen=[]
for c in cs:
    if c and c not in seen: seen.append(c)
print(' '.join(seen[:4]))
PY
)
  git -C $R apply $PWD/$d/patch.diff 2>/dev/null || git -C $R apply --recount $PWD/$d/patch.diff 2>/dev/null || { echo "$id APPLY-FAILED"; continue; }
  verdict=MISSED; by=""
  for c in $checks; do
    out=$(./check $c 2>&1 | grep VIOLATION)
    if echo "$out" | grep -v "no-failing-input-found" | grep -q VIOLATION; then verdict=CAUGHT; by="$by $c"; break; fi
    if echo "$out" | grep -q VIOLATION; then [ $verdict = MISSED ] && verdict=WEAK; by="$by $c?"; fi
  done
  echo "$id $verdict$by (ran: $checks)"
  git -C $R checkout -- . ; git -C $R clean -fdq
done
echo "=== done"
