#!/bin/bash
# Behaviour-preserving rewrites of /repo (seeded/harmless/h*.diff, written by an independent sub-agent) must raise no alarm:
# applies each one to the repository named by VERIF_REPO (default /repo), runs every quick check, undoes it; then all together.
cd "$(dirname "$0")/.."
R=${VERIF_REPO:-/repo}
for f in seeded/harmless/h*.diff; do
  echo "=== $f"
  git -C $R apply $PWD/$f || { echo "APPLY FAILED"; continue; }
  tools/all_quick.sh
  git -C $R checkout -- . ; git -C $R status --short
done
echo "=== all together"
for f in seeded/harmless/h*.diff; do git -C $R apply $PWD/$f; done
tools/all_quick.sh
git -C $R checkout -- . ; git -C $R status --short
echo "=== done"
