#!/bin/bash
# worker.sh <slot>: takes jobs (lines "Cnn-r6 n checks...") from queue.txt until it finds "END"
S=$1
while true; do
  job=$(flock queue.lock sh -c 'head -1 queue.txt; sed -i 1d queue.txt')
  if [ -z "$job" ]; then sleep 10; continue; fi
  [ "$job" = END ] && exit 0
  set -- $job; d=$1; n=$2; shift 2
  ./evalslot.sh $S /tmp/seed/$d-out $n "$@" > $d-$n.log 2>&1
done
