#!/bin/bash
# usage: VERIF_REPO=<tree> [VERIF_SEED=n] [ENGINES="sync world …"] [SCALE=1] [STOP_ON_DETECT=<baseline report>] tools/engines_once.sh [report-file]
#
# Rebuilds the harness against $VERIF_REPO (default /repo; never edits it), extracts the source facts, and runs EVERY
# correspondence engine once: corpus files + generator (quick sizes) (+ the cheap quick enumerations) through the real code and
# through the compiled model `asts-model`.  Prints one line per engine:
#
#     engine <name> cases <n> diff <d> mon <clause>=<count>,… [fatal <reason>]
#
# diff = number of cases whose full implementation observation differs from the model's (string equality after dropping the
# uncompared ` site=` token); mon = monitor clauses that failed on the implementation's observation, with counts.
# Further lines:   build ok|FAIL   extract <sha1 of the four fact files>   (and `lean ok|FAIL` when LEAN_FACTS=1)
#
# With STOP_ON_DETECT=<baseline report> the script stops after the first engine whose line shows a detection relative to that
# baseline report (diff > baseline diff, or a clause that the baseline does not show), to save time in sweeps.
# Cores: GOMAXPROCS (default 2) bounds the harness workers; the go build runs with -p $GOMAXPROCS.
set -u
cd "$(dirname "$0")"; while [ ! -x ./check ] && [ "$PWD" != / ]; do cd ..; done
V=$PWD
REPO=${VERIF_REPO:-/repo}
SEED=${VERIF_SEED:-1}
SCALE=${SCALE:-1}
REPORT=${1:-/dev/stdout}
export GOMAXPROCS=${GOMAXPROCS:-2}
export GOFLAGS=-mod=mod GOPROXY=off GOSUMDB=off GOTOOLCHAIN=local CGO_ENABLED=0 GOMEMLIMIT=6GiB
export VERIF_REPO=$REPO VERIF_SEED=$SEED
W=$V/.work; mkdir -p $W/bin $W/eo
H=$W/bin/harness; M=$V/lean/.lake/build/bin/asts-model
CASE_TIMEOUT=${ENGINE_TIMEOUT:-900}

# engine : generator size : enumerations   (cheapest first: a sweep stops at the first detecting engine)
SPEC=${SPEC:-"annot:20000: events:40000:all syncmig:3000: podcontrol:20000: reconcile:20000: sync:6000: world:1500: ordinals:30000: defaults:6000: codec:4000: hijack:2500:single patch:3000: upgrade:20000:single watch:600:4"}
ENGINES=${ENGINES:-}

out() { echo "$@" >> "$REPORT.tmp"; }
: > "$REPORT.tmp"
finish() { if [ "$REPORT" = /dev/stdout ]; then cat "$REPORT.tmp"; rm -f "$REPORT.tmp"; else mv "$REPORT.tmp" "$REPORT"; fi; exit ${1:-0}; }

# ---- harness build (go.sum = union of the two repo modules' sums; replace lines redirected to $REPO)
sort -u "$REPO/go.sum" "$REPO/client/go.sum" > $W/go.alt.sum
cmp -s $W/go.alt.sum $V/harness/go.sum || cp $W/go.alt.sum $V/harness/go.sum
sed -e "s,=> /repo/client,=> $REPO/client," -e "s,=> /repo\$,=> $REPO," $V/harness/go.mod > $W/go.alt.mod
if ! (cd $V/harness && go build -p $GOMAXPROCS -tags verif -modfile $W/go.alt.mod -o $H . ) > $W/eo/build.log 2>&1; then
  out "build FAIL $(grep -m1 -E '\.go:[0-9]+' $W/eo/build.log | cut -c1-200)"; finish 0
fi
out "build ok"

# ---- fact extraction
ex=""
for what in Sites Crd Defaulters Schema; do
  if ! $H extract $what > $W/eo/$what.lean 2> $W/eo/extract.err; then out "extract FAIL $what $(head -c 200 $W/eo/extract.err | tr '\n' ' ')"; ex=FAIL; break; fi
done
if [ -z "$ex" ]; then
  sha=$(cat $W/eo/Sites.lean $W/eo/Crd.lean $W/eo/Defaulters.lean $W/eo/Schema.lean | sha1sum | cut -c1-16)
  out "extract $sha"
  if [ "${LEAN_FACTS:-0}" = 1 ]; then
    mkdir -p $V/lean/Asts/Gen
    for what in Sites Crd Defaulters Schema; do cmp -s $W/eo/$what.lean $V/lean/Asts/Gen/$what.lean || cp $W/eo/$what.lean $V/lean/Asts/Gen/$what.lean; done
    if (cd $V/lean && lake build Asts.Props.C06 Asts.Props.C10 Asts.Props.C15 Asts.Props.C17 Asts.Props.C19) > $W/eo/lake.log 2>&1; then out "lean ok"; else out "lean FAIL $(grep -m1 -E 'error' $W/eo/lake.log | cut -c1-200)"; fi
  fi
fi

detected() { [ -n "${STOP_ON_DETECT:-}" ] && python3 $V/tools/mutsweep/eo_summary.py detected "$STOP_ON_DETECT" "$1"; }

for spec in $SPEC; do
  IFS=: read E N ENUMS <<< "$spec"
  if [ -n "$ENGINES" ] && ! [[ " $ENGINES " == *" $E "* ]]; then continue; fi
  N=$(( N * SCALE ))
  C=$W/eo/$E.cases; : > $C
  for f in $V/corpus/$E/*.txt; do [ -f "$f" ] && grep -v '^#' "$f" | grep -v '^$' >> $C; done
  fatal=""
  timeout 600 $H $E gen $N >> $C 2> $W/eo/$E.gen.err || fatal="gen-failed"
  for sc in ${ENUMS//,/ }; do timeout 600 $H $E enum $sc >> $C 2>> $W/eo/$E.gen.err || fatal="enum-failed"; done
  n=$(wc -l < $C)
  timeout $CASE_TIMEOUT $H $E run < $C > $W/eo/$E.txt 2> $W/eo/$E.err; rc=$?
  if [ $rc = 124 ] || [ $rc = 137 ]; then
    fatal="timeout-after-${CASE_TIMEOUT}s"; : > $W/eo/$E.txt
  elif [ $rc != 0 ]; then
    # fatal runtime error or time-out: one case at a time through `serve`, attributing each crash to the case in flight
    : > $W/eo/$E.txt; rest=$C; crashes=0
    cp $C $W/eo/$E.rest
    while [ -s $W/eo/$E.rest ]; do
      timeout $CASE_TIMEOUT $H $E serve < $W/eo/$E.rest > $W/eo/$E.part 2> $W/eo/$E.err
      k=$(wc -l < $W/eo/$E.part); r=$(wc -l < $W/eo/$E.rest)
      [ $k -gt $r ] && k=$r
      paste -d'\001' <(head -n $k $W/eo/$E.rest) <(head -n $k $W/eo/$E.part) | sed 's/\x01/ => /' >> $W/eo/$E.txt
      [ $k -ge $r ] && break
      reason=$(grep -m1 -E '^(fatal error: |panic: |runtime: )' $W/eo/$E.err | tr -c 'A-Za-z0-9_.:\n-' '_' | cut -c1-100)
      echo "$(sed -n "$((k+1))p" $W/eo/$E.rest) => harness-fatal:${reason:-exit}" >> $W/eo/$E.txt
      fatal="harness-fatal:${reason:-exit-or-timeout}"
      crashes=$((crashes+1))
      tail -n +$((k+2)) $W/eo/$E.rest > $W/eo/$E.rest2; mv $W/eo/$E.rest2 $W/eo/$E.rest
      if [ $crashes -gt 10 ]; then fatal="$fatal(more-than-10)"; break; fi
    done
  fi
  if ! timeout $CASE_TIMEOUT $M $E < $W/eo/$E.txt > $W/eo/$E.out 2> $W/eo/$E.merr; then fatal="${fatal:+$fatal,}model-failed"; fi
  nl=$(wc -l < $W/eo/$E.txt); ml=$(wc -l < $W/eo/$E.out)
  [ "$nl" = "$n" ] && [ "$ml" = "$n" ] || fatal="${fatal:+$fatal,}lines:$n/$nl/$ml"
  line=$(python3 $V/tools/mutsweep/eo_summary.py line $W/eo/$E.txt $W/eo/$E.out $E $n "$fatal" 2> $W/eo/$E.diffs)
  out "$line"
  if detected "$line"; then out "stopped-after $E"; finish 0; fi
done
finish 0
