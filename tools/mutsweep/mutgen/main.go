// Command mutgen lists single-point mutants of the controller sources (go/ast + go/types, byte-offset edits so that the rest
// of the file stays byte-identical and line numbers do not move).
//
//	mutgen -repo <tree> [-files a.go,b.go] > mutants.jsonl
//
// One JSON object per line: {"id","file","line","col","op","start","end","repl","orig","func"}; a mutant is applied by replacing
// bytes [start,end) of the file by repl (tools/mutsweep.py does that).
//
// Operators: negate-if, logic (&& <-> ||), relop (< <-> <=, > <-> >=, == <-> !=), intlit+1 / intlit-1, arith (+ <-> -, ++ <-> --,
// += <-> -=, numeric operands only), del-stmt (expression statement, assignment, inc/dec), del-defer, del-ifbody (an if body that
// holds a continue / break / return is emptied), err-nil (`return …, err` -> `return …, nil` inside `if err != nil`), swap-args (two
// adjacent arguments of identical type), bool-call (a call whose result is one bool replaced by true / false).
// Skipped: everything inside klog.* / utilruntime.HandleError / recorder.Event(f) / fmt.Errorf / errors.New calls, and comments.
package main

import (
	"bytes"
	"encoding/json"
	"flag"
	"fmt"
	"go/ast"
	"go/constant"
	"go/importer"
	"go/parser"
	"go/token"
	"go/types"
	"io"
	"os"
	"os/exec"
	"path/filepath"
	"strings"
)

type target struct {
	mod  string // module directory relative to the tree
	pkg  string // package directory relative to the module
	file string // file name
	abbr string
}

var targets = []target{
	{"client", "apis/apps/v1/helper", "helper.go", "helper"},
	{"client", "apis/apps/v1/helper", "hijack.go", "hijack"},
	{"client", "apis/apps/v1/helper", "upgrade.go", "upgrade"},
	{"client", "apis/apps/v1", "defaults.go", "defaults"},
	{".", "pkg/controller/statefulset", "stateful_set_control.go", "control"},
	{".", "pkg/controller/statefulset", "stateful_set.go", "set"},
	{".", "pkg/controller/statefulset", "stateful_set_utils.go", "utils"},
	{".", "pkg/controller/statefulset", "stateful_pod_control.go", "podctl"},
	{".", "pkg/controller/statefulset", "stateful_set_status_updater.go", "status"},
	{".", "pkg/third_party/k8s", "controller_ref_manager.go", "refmgr"},
	{".", "pkg/third_party/k8s", "controller_history.go", "history"},
}

type Mutant struct {
	ID    string `json:"id"`
	File  string `json:"file"`
	Line  int    `json:"line"`
	Col   int    `json:"col"`
	Op    string `json:"op"`
	Start int    `json:"start"`
	End   int    `json:"end"`
	Repl  string `json:"repl"`
	Orig  string `json:"orig"`
	Func  string `json:"func"`
}

type listed struct {
	ImportPath string
	Export     string
	Dir        string
	GoFiles    []string
}

func goList(dir string, args ...string) []listed {
	cmd := exec.Command("go", append([]string{"list", "-e", "-export", "-deps", "-json=ImportPath,Export,Dir,GoFiles"}, args...)...)
	cmd.Dir = dir
	cmd.Stderr = os.Stderr
	out, err := cmd.Output()
	if err != nil {
		fmt.Fprintln(os.Stderr, "go list failed in", dir, err)
		os.Exit(1)
	}
	dec := json.NewDecoder(bytes.NewReader(out))
	var res []listed
	for {
		var l listed
		if err := dec.Decode(&l); err == io.EOF {
			break
		} else if err != nil {
			fmt.Fprintln(os.Stderr, err)
			os.Exit(1)
		}
		res = append(res, l)
	}
	return res
}

type gen struct {
	fset  *token.FileSet
	src   []byte
	info  *types.Info
	rel   string
	abbr  string
	n     int
	out   []Mutant
	fn    string
	skip  map[ast.Node]bool
	tfile *token.File
}

func (g *gen) off(p token.Pos) int { return g.tfile.Offset(p) }

func (g *gen) add(op string, start, end token.Pos, repl string) {
	s, e := g.off(start), g.off(end)
	pos := g.fset.Position(start)
	g.n++
	orig := string(g.src[s:e])
	if len(orig) > 200 {
		orig = orig[:200] + "…"
	}
	g.out = append(g.out, Mutant{ID: fmt.Sprintf("%s-%03d", g.abbr, g.n), File: g.rel, Line: pos.Line, Col: pos.Column, Op: op, Start: s, End: e, Repl: repl, Orig: orig, Func: g.fn})
}

func (g *gen) text(n ast.Node) string { return string(g.src[g.off(n.Pos()):g.off(n.End())]) }

// rootIdent returns the leftmost identifier of a selector / call chain: klog.V(4).Infof -> klog
func rootIdent(e ast.Expr) string {
	for {
		switch x := e.(type) {
		case *ast.Ident:
			return x.Name
		case *ast.SelectorExpr:
			e = x.X
		case *ast.CallExpr:
			e = x.Fun
		case *ast.ParenExpr:
			e = x.X
		default:
			return ""
		}
	}
}

func isLogCall(c *ast.CallExpr) bool {
	if rootIdent(c.Fun) == "klog" {
		return true
	}
	if s, ok := c.Fun.(*ast.SelectorExpr); ok {
		root := rootIdent(s.X)
		switch {
		case root == "utilruntime" && s.Sel.Name == "HandleError":
			return true
		case s.Sel.Name == "Eventf" || s.Sel.Name == "Event":
			return true
		case root == "fmt" && s.Sel.Name == "Errorf":
			return true
		case root == "errors" && s.Sel.Name == "New":
			return true
		}
	}
	return false
}

func isNumeric(t types.Type) bool {
	if t == nil {
		return false
	}
	b, ok := t.Underlying().(*types.Basic)
	return ok && b.Info()&types.IsNumeric != 0
}

func isErrNotNil(cond ast.Expr, info *types.Info) (string, bool) {
	found := ""
	ast.Inspect(cond, func(n ast.Node) bool {
		if b, ok := n.(*ast.BinaryExpr); ok && b.Op == token.NEQ {
			if id, ok := b.X.(*ast.Ident); ok {
				if y, ok := b.Y.(*ast.Ident); ok && y.Name == "nil" {
					if t := info.TypeOf(id); t != nil && t.String() == "error" {
						found = id.Name
					}
				}
			}
		}
		return true
	})
	return found, found != ""
}

func hasJump(body *ast.BlockStmt) bool {
	for _, s := range body.List {
		switch x := s.(type) {
		case *ast.ReturnStmt:
			return true
		case *ast.BranchStmt:
			if x.Tok == token.CONTINUE || x.Tok == token.BREAK {
				return true
			}
		}
	}
	return false
}

func (g *gen) stmts(list []ast.Stmt) {
	for _, s := range list {
		switch x := s.(type) {
		case *ast.ExprStmt:
			if c, ok := x.X.(*ast.CallExpr); ok && isLogCall(c) {
				continue
			}
			g.add("del-stmt", x.Pos(), x.End(), "")
		case *ast.AssignStmt:
			if x.Tok != token.DEFINE {
				g.add("del-stmt", x.Pos(), x.End(), "")
			}
		case *ast.IncDecStmt:
			g.add("del-stmt", x.Pos(), x.End(), "")
		case *ast.DeferStmt:
			g.add("del-defer", x.Pos(), x.End(), "")
		}
	}
}

func (g *gen) walk(root ast.Node) {
	var errIf []string // stack of error identifiers of enclosing `if err != nil`
	var visit func(n ast.Node)
	children := func(n ast.Node) {
		first := true
		ast.Inspect(n, func(c ast.Node) bool {
			if first {
				first = false
				return true
			}
			if c != nil {
				visit(c)
			}
			return false
		})
	}
	visit = func(n ast.Node) {
		switch x := n.(type) {
		case *ast.FuncDecl:
			old := g.fn
			g.fn = x.Name.Name
			if x.Recv != nil && len(x.Recv.List) == 1 {
				g.fn = strings.TrimPrefix(g.text(x.Recv.List[0].Type), "*") + "." + g.fn
			}
			if x.Body != nil {
				visit(x.Body)
			}
			g.fn = old
			return
		case *ast.CallExpr:
			if isLogCall(x) {
				return
			}
			// swap-args
			if sig, ok := g.info.TypeOf(x.Fun).(*types.Signature); ok {
				_ = sig
				for i := 0; i+1 < len(x.Args); i++ {
					a, b := x.Args[i], x.Args[i+1]
					ta, tb := g.info.TypeOf(a), g.info.TypeOf(b)
					if ta == nil || tb == nil {
						continue
					}
					if !types.Identical(types.Default(ta), types.Default(tb)) {
						continue
					}
					if g.text(a) == g.text(b) {
						continue
					}
					g.add("swap-args", a.Pos(), b.End(), g.text(b)+string(g.src[g.off(a.End()):g.off(b.Pos())])+g.text(a))
				}
				// bool-call
				if tv, ok := g.info.Types[x]; ok && tv.Value == nil {
					if b, ok := tv.Type.Underlying().(*types.Basic); ok && b.Kind() == types.Bool {
						if ftv, ok := g.info.Types[x.Fun]; ok && !ftv.IsType() && !ftv.IsBuiltin() {
							g.add("bool-call-true", x.Pos(), x.End(), "true")
							g.add("bool-call-false", x.Pos(), x.End(), "false")
						}
					}
				}
			}
		case *ast.IfStmt:
			if b, ok := x.Cond.(*ast.BinaryExpr); !(ok && (b.Op == token.EQL || b.Op == token.NEQ)) {
				g.add("negate-if", x.Cond.Pos(), x.Cond.End(), "!("+g.text(x.Cond)+")")
			}
			if hasJump(x.Body) {
				g.add("del-ifbody", x.Body.Pos(), x.Body.End(), "{}")
			}
			if x.Init != nil {
				visit(x.Init)
			}
			visit(x.Cond)
			if id, ok := isErrNotNil(x.Cond, g.info); ok {
				errIf = append(errIf, id)
				visit(x.Body)
				errIf = errIf[:len(errIf)-1]
			} else {
				visit(x.Body)
			}
			if x.Else != nil {
				visit(x.Else)
			}
			return
		case *ast.ReturnStmt:
			if len(errIf) > 0 && len(x.Results) > 0 {
				last := x.Results[len(x.Results)-1]
				if id, ok := last.(*ast.Ident); ok && id.Name == errIf[len(errIf)-1] {
					g.add("err-nil", id.Pos(), id.End(), "nil")
				}
			}
		case *ast.FuncLit:
			// a closure body starts a fresh `if err != nil` context
			saved := errIf
			errIf = nil
			visit(x.Body)
			errIf = saved
			return
		case *ast.BlockStmt:
			g.stmts(x.List)
		case *ast.CaseClause:
			g.stmts(x.Body)
		case *ast.CommClause:
			g.stmts(x.Body)
		case *ast.BinaryExpr:
			swap := map[token.Token]token.Token{token.LAND: token.LOR, token.LOR: token.LAND, token.LSS: token.LEQ, token.LEQ: token.LSS,
				token.GTR: token.GEQ, token.GEQ: token.GTR, token.EQL: token.NEQ, token.NEQ: token.EQL}
			if to, ok := swap[x.Op]; ok {
				op := "relop"
				if x.Op == token.LAND || x.Op == token.LOR {
					op = "logic"
				}
				g.add(op, x.OpPos, x.OpPos+token.Pos(len(x.Op.String())), to.String())
			}
			if (x.Op == token.ADD || x.Op == token.SUB) && isNumeric(g.info.TypeOf(x.X)) && isNumeric(g.info.TypeOf(x.Y)) {
				to := token.SUB
				if x.Op == token.SUB {
					to = token.ADD
				}
				g.add("arith", x.OpPos, x.OpPos+1, to.String())
			}
		case *ast.IncDecStmt:
			to := "--"
			if x.Tok == token.DEC {
				to = "++"
			}
			g.add("arith", x.TokPos, x.TokPos+2, to)
		case *ast.AssignStmt:
			if x.Tok == token.ADD_ASSIGN || x.Tok == token.SUB_ASSIGN {
				if isNumeric(g.info.TypeOf(x.Lhs[0])) {
					to := "-="
					if x.Tok == token.SUB_ASSIGN {
						to = "+="
					}
					g.add("arith", x.TokPos, x.TokPos+2, to)
				}
			}
		case *ast.BasicLit:
			if x.Kind == token.INT {
				v := constant.MakeFromLiteral(x.Value, token.INT, 0)
				if i, ok := constant.Int64Val(v); ok {
					g.add("intlit+1", x.Pos(), x.End(), fmt.Sprint(i+1))
					g.add("intlit-1", x.Pos(), x.End(), fmt.Sprint(i-1))
				}
			}
		case *ast.ImportSpec, *ast.Field:
			return
		}
		children(n)
	}
	visit(root)
}

func main() {
	repo := flag.String("repo", "/repo", "repository tree")
	only := flag.String("files", "", "comma-separated file names (default: all targets)")
	flag.Parse()
	os.Setenv("GOFLAGS", "-mod=mod")
	os.Setenv("GOPROXY", "off")
	os.Setenv("GOSUMDB", "off")
	os.Setenv("GOTOOLCHAIN", "local")
	os.Setenv("CGO_ENABLED", "0")
	want := map[string]bool{}
	for _, f := range strings.Split(*only, ",") {
		if f != "" {
			want[f] = true
		}
	}
	type key struct{ mod, pkg string }
	byPkg := map[key][]target{}
	var order []key
	for _, t := range targets {
		if len(want) > 0 && !want[t.file] {
			continue
		}
		k := key{t.mod, t.pkg}
		if _, ok := byPkg[k]; !ok {
			order = append(order, k)
		}
		byPkg[k] = append(byPkg[k], t)
	}
	enc := json.NewEncoder(os.Stdout)
	enc.SetEscapeHTML(false)
	for _, k := range order {
		modDir := filepath.Join(*repo, k.mod)
		pkgs := goList(modDir, "./"+k.pkg)
		exports := map[string]string{}
		var self listed
		for _, p := range pkgs {
			exports[p.ImportPath] = p.Export
			if p.Dir == filepath.Join(modDir, k.pkg) {
				self = p
			}
		}
		fset := token.NewFileSet()
		var files []*ast.File
		byName := map[string]*ast.File{}
		srcs := map[string][]byte{}
		for _, f := range self.GoFiles {
			path := filepath.Join(self.Dir, f)
			src, err := os.ReadFile(path)
			if err != nil {
				panic(err)
			}
			af, err := parser.ParseFile(fset, path, src, parser.SkipObjectResolution)
			if err != nil {
				panic(err)
			}
			files = append(files, af)
			byName[f] = af
			srcs[f] = src
		}
		imp := importer.ForCompiler(fset, "gc", func(path string) (io.ReadCloser, error) {
			e := exports[path]
			if e == "" {
				return nil, fmt.Errorf("no export data for %s", path)
			}
			return os.Open(e)
		})
		info := &types.Info{Types: map[ast.Expr]types.TypeAndValue{}, Uses: map[*ast.Ident]types.Object{}, Defs: map[*ast.Ident]types.Object{}}
		conf := types.Config{Importer: imp, Error: func(err error) { fmt.Fprintln(os.Stderr, "type error:", err) }}
		if _, err := conf.Check(self.ImportPath, fset, files, info); err != nil {
			fmt.Fprintln(os.Stderr, "type check of", self.ImportPath, "failed:", err)
			os.Exit(1)
		}
		for _, t := range byPkg[k] {
			af := byName[t.file]
			if af == nil {
				fmt.Fprintln(os.Stderr, "no such file in package:", t.file)
				os.Exit(1)
			}
			g := &gen{fset: fset, src: srcs[t.file], info: info, rel: filepath.Join(k.mod, k.pkg, t.file), abbr: t.abbr, tfile: fset.File(af.Pos())}
			for _, d := range af.Decls {
				g.walk(d)
			}
			for _, m := range g.out {
				enc.Encode(m)
			}
		}
	}
}
