module verif/tools/mutgen

go 1.23
