#!/usr/bin/env python3
"""writes out/summary.md from out/{triage.tsv,engines.tsv,mutants.jsonl,summary_tables.md,validate.tsv}"""
import collections
import json

tri = {}
for l in open("out/triage.tsv"):
    f = l.rstrip("\n").split("\t")
    tri[f[0]] = f[1]
eng = {}
for l in open("out/engines.tsv"):
    f = l.rstrip("\n").split("\t")
    eng[f[0]] = f
ms = [json.loads(l) for l in open("out/mutants.jsonl")]
byfile = collections.OrderedDict()
for m in ms:
    if m["id"] in tri:
        byfile.setdefault(m["file"], collections.Counter())[tri[m["id"]]] += 1
none = collections.Counter(tri[i] for i in tri if eng[i][2] == "(none)")
some = collections.Counter(tri[i] for i in tri if eng[i][2] != "(none)")
tables = open("out/summary_tables.md").read().split("\n", 2)[2]
tot = collections.Counter(tri.values())
val = [l.rstrip("\n").split("\t") for l in open("out/validate.tsv")]
val_det = [v for v in val if v[1] != "undetected"]
validation = "%d of %d done, %s" % (len(val), 10, "none of them is detected by any of the 13 engines" if not val_det else "DETECTED: " + ", ".join(v[0] + " " + v[1] for v in val_det))

s = []
w = s.append
w("# Mutation sweep of pingcap/advanced-statefulset against the /verif engines: summary\n")
w("Trees: repository `53b1b2a` (\"fix: an unhealthy pod at ordinal 2147483647 crashed the reconcile\"), framework `/verif` at `2454796`. "
  "The sweep was started on `feb1d7c` / `4da061c`; both moved during the test phase, so the mutants were regenerated on the new head, the framework copies were re-synced, coverage and baselines were re-measured, "
  "and only those test results were carried over whose mutated text sits at the same place in an unchanged function (525 of 1210; the two changed lines are in `updateStatefulSet`, all mutants from there on were re-run).\n")
w("## Result\n")
w("* 1210 mutants (one mutation each) in the 11 files; 61 do not build, **556 are killed by the existing tests**, 593 survive them.")
w("* Of the 593 survivors the engines **detect 345** (full-observation difference impl vs model, a new monitor clause, a harness / generator crash or hang, or a broken `decide` fact theorem) and **248 stay undetected**.")
w("* Mutation score over the 1149 mutants that build: **tests alone 48.4 %**, **tests + engines 78.4 %**. Leaving out the {a} undetected mutants that are equivalent (class a): tests 55.0 %, tests + engines **89.2 %** (901 / 1010); counting only what lies inside the 20 properties (class b left out as well): 901 / 950 = **94.8 %**.".format(a=tot["a"]))
w("* Triage of the 248 (details, diffs and demonstration tests in `undetected.md`): (a) equivalent / unobservable **{a}**, (b) observable but outside the 20 properties **{b}**, (c) real gap **{c}**, (c-) lesser gap (hijack error paths, rare-input hash shortcut) **{cm}**.\n".format(a=tot["a"], b=tot["b"], c=tot["c"], cm=tot["c-"]))
w("Class-(c) gaps, by group (49 mutants, 8 demonstrations, all verified to pass on the pristine tree and to fail on every listed mutant):\n")
w("| group | property | mutants | missing piece |\n|---|---|---|---|")
w("| G1 hijack Update / UpdateStatus / Patch: returned object | C19 | hijack-015, -022, -063 | `codec` / `defaults` discard the return values; nothing calls `Patch` |")
w("| G2 hijack Apply / ApplyStatus / FromBuiltinStatefulSetApplyConfiguration | C19 | hijack-034, -037, -040, -043, -094, -097 | no engine calls the server-side-apply path at all |")
w("| G3 hijack client swallows API errors (borderline, c-) | C19 / C20 | hijack-014, -016, -021, -023, -024, -026, -027, -029, -030, -032, -036, -038, -042, -044, -062, -064 | the fake behind the hijack client never fails |")
w("| G4 Upgrade creates with the old resourceVersion | C17 | upgrade-032 | fake API accepts it, write log does not show the field |")
w("| G5 unappliable `status.currentRevision` must be an error, not a crash | C15 / C09 | control-113, -115, utils-148, -149, -151 | generators only store well-formed revision data |")
w("| G6 duplicate ordinals among the condemned pods | C05 / C03 | control-192, utils-187 | duplicates are generated inside the desired range only |")
w("| G7 hash-label shortcut of EqualRevision (c-) | C08 / C18 | history-019, -020, -023, -024, -025, -028, -029, -032, -033, -038 | needs a fresh revision whose label is all digits (0.6 % of templates) |")
w("| G8 Run() / worker() never executed | C16 / C02 | set-015, -016, -022, -023, -139, -140 | engines drive handlers / one worker step / sync() through hooks only |")
w("")
w("## Counts per file and per status\n")
w(tables)
w("\nTriage class of the undetected mutants per file:\n")
w("| file | a | b | c | c- |\n|---|---|---|---|---|")
for f, c in byfile.items():
    w("| %s | %d | %d | %d | %d |" % (f, c["a"], c["b"], c["c"], c["c-"]))
w("| **total** | %d | %d | %d | %d |" % (tot["a"], tot["b"], tot["c"], tot["c-"]))
w("\n%d of the 248 undetected mutants sit in basic blocks that NO engine executes on the unmutated tree (3 seeds): a %d, b %d, c %d, c- %d; the other %d are executed by at least one engine: a %d, b %d, c %d, c- %d.\n" % (
    sum(none.values()), none["a"], none["b"], none["c"], none["c-"], sum(some.values()), some["a"], some["b"], some["c"], some["c-"]))
w("""## Method

1. **Generator** `tools/mutgen` (Go, go/ast + go/types with export data from `go list -export`, no dependency outside the standard library). Byte-offset edits, so the rest of the file and all line numbers stay as they are. Operators: `negate-if`, `logic` (&& <-> ||), `relop` (< <-> <=, > <-> >=, == <-> !=), `intlit+1` / `intlit-1`, `arith` (+ <-> -, ++ <-> --, += <-> -=; numeric operands only), `del-stmt` (expression statement, assignment, inc/dec), `del-defer`, `del-ifbody` (an if body holding continue / break / return is emptied), `err-nil` (`return .., err` -> `return .., nil` inside `if err != nil`), `swap-args` (adjacent arguments of identical type), `bool-call-true/false` (a call whose single result is bool). Nothing is generated inside klog / HandleError / Event(f) / fmt.Errorf / errors.New calls. Both third_party files were mutated whole (every function in them is reachable from the controller). A bare `==` / `!=` condition gets `relop` but not `negate-if` (same mutant).
2. **Tests phase** (`tools/mutsweep.py tests`, 6 scratch worktrees): the existing tests first (`go test -count=1 ./...` in `client/` for client mutants, then `go test -count=1 ./pkg/...` in the root; a compile error shows as `[build failed]` = nobuild; a 90 s time-out = killed, several `updateStatefulSet` mutants loop for ever), then for the survivors `go build ./...` in both modules and `go build -tags verif ./...` in the root.
3. **Engines phase** (`tools/mutsweep.py engines`, 2-4 framework copies with one worktree each; `/repo` and `/verif` are never touched): `tools/engines_once.sh` rebuilds the harness against the mutated tree (`-modfile` with redirected `replace` lines), extracts the four fact files, and runs each engine once: corpus files + generator at the quick size (+ the quick enumerations of `events`, `upgrade`, `watch`): annot 20000, events 40000+all, syncmig 3000, podcontrol 20000, reconcile 20000, sync 6000, world 1500, ordinals 30000, defaults 6000, codec 4000, patch 3000, upgrade 20000+single, watch 600+4. Per engine it reports the number of full-observation differences and the failed monitor clauses with counts. A mutant is DETECTED when, against the baseline report of the same seed, an engine shows more differences, a clause the baseline does not show (or more failures of a clause it does: the only baseline failures are the known finding `C08.data` / `C08.restore` of `patch`, 97-117 / 29-44 cases per seed), a fatal harness crash / generator failure / time-out (7 min per engine), the harness no longer builds, fact extraction fails, or (only when the extracted facts differ from the baseline's) `lake build Asts.Props.C06 C10 C15 C17 C19` fails (4 `upgrade.go` mutants break a fact theorem besides being seen by the engine). Seed 1 first, stopping at the first detecting engine; seeds 2 and 3 before a mutant is declared undetected.
4. **Engine selection by coverage** (`tools/mutsweep.py cover`): to fit the time budget an engine is run on a mutant only if its run on the UNMUTATED tree (union of seeds 1-3, harness built with `-cover -coverpkg` over the four packages; child processes of `watch` / `sync` included) executes the basic block that holds the mutated code; code outside any block (package level) gets every engine. An engine that never executes the block cannot observe the mutation (same generator, same seed). Mutants in blocks no engine executes still get the harness build and the fact extraction. Cross-check: `tools/validate_pruning.py` re-ran ALL 13 engines (seed 1) on a random sample of 10 mutants declared undetected under the selection: VALIDATION.
5. **Triage** by reading the code; every class-(c) mutant has a small Go test (`demos/`, checked by `tools/mutsweep.py demo`).

Wall time: tests phase about 75 min (6 workers), engines phase about 95 min (2, later 4 workers of 2 cores), coverage + 3 baselines about 25 min.

## Observations

* The unit tests leave `upgrade.go` (0 of 50) and `defaults.go` (3 of 28) practically untested; the `upgrade` and `defaults` / `codec` engines catch 46 and 24 of those.
* `stateful_pod_control.go`: all 20 undetected mutants are event reason / message text (class b): the `podcontrol` engine observes API writes, not events.
* The error branches after `json.Marshal` / `json.Unmarshal` / `runtime.Encode` account for most class-(a) mutants (unreachable).
* Redundant pairs make single mutations equivalent: the two `SortControllerRevisions` calls (control-001 / control-063), NotFound handled both in `ReleasePod` and in `ClaimObject` (refmgr-018/020 vs refmgr-074/076).
* Two mutants are arguably improvements: control-341 (the conflict retry of `updateControllerRevision` keeps its clone instead of taking the empty object a REST client returns together with an error) and control-192 (does not wait for ever on two unhealthy condemned twins).

## Files

* `mutants.tsv` — id, file, line, operator, status (`nobuild` | `killed-by-tests` | `detected:<engine:diff=n+clauses,...>` | `undetected`), function, change, detail (failing test / engines run and seeds)
* `mutants.jsonl` — the generator's output (byte offsets and replacement text; `tools/mutdiff.py` prints a mutant as a git-apply-able diff)
* `undetected.md` — triage of all 248, with diffs and demonstration tests for class (c); `triage.tsv` is the same in machine-readable form
* `demos/` — the 8 demonstration tests and `VERIFIED.txt`
* `baseline/`, `cover.json`, `reports/`, `tests.tsv`, `engines.tsv` — baseline reports per seed, per-engine coverage, per-mutant engine reports, raw phase results
* `tools/` — `mutgen/` (generator), `engines_once.sh` + `eo_summary.py` (one run of every engine on one tree), `mutsweep.py` (driver: tests / cover / baseline / engines / demo / report), `mutdiff.py`, `validate_pruning.py`, `make_undetected_md.py`, `make_summary.py`; meant to be dropped into `/verif/tools` (they take the framework directory from their own location and the repository from `VERIF_REPO` / `--repo`; the last three have the sweep's paths hard-wired).
""".replace("VALIDATION", validation))
open("out/summary.md", "w").write("\n".join(s) + "\n")
print("ok")
