#!/usr/bin/env python3
"""Sanity check of the coverage-based engine selection: run ALL engines (seed 1) on a random sample of mutants that the sweep
declared undetected after running only the covering engines; any detection here would mean the pruning hid something."""
import json, os, random, sys, threading
sys.path.insert(0, "/root/work/mut/verif/tools")
import mutsweep, eo_summary
ms = {m["id"]: m for m in mutsweep.load_mutants("out/mutants.jsonl")}
und = [l.split("\t") for l in open("out/engines.tsv") if l.split("\t")[1] == "undetected"]
random.seed(7)
sample = random.sample([u[0] for u in und if len(u[2].split()) < 13 and not u[0].startswith("podctl-0")], int(sys.argv[1]))
workers = [("/root/work/mut/verif", "/root/work/mut/repo7"), ("/root/work/mut/verif2", "/root/work/mut/repo8")]
base = eo_summary.parse_report("out/baseline/seed1.txt")
lock = threading.Lock()
def work(w):
    V, R = w
    while True:
        with lock:
            if not sample: return
            i = sample.pop()
        mutsweep.apply_mutant(R, ms[i])
        try:
            rep = mutsweep.run_engines(V, R, 1, "out/validate/%s.txt" % i)
            why = eo_summary.compare(base, rep)
            with lock:
                open("out/validate.tsv", "a").write("%s\t%s\t%d engines\n" % (i, ("DETECTED:" + ",".join(why)) if why else "undetected", len(rep["engines"])))
        finally:
            mutsweep.restore(R)
os.makedirs("out/validate", exist_ok=True)
ts = [threading.Thread(target=work, args=(w,)) for w in workers]
[t.start() for t in ts]; [t.join() for t in ts]
