#!/usr/bin/env python3
import collections, json, os, sys
sys.path.insert(0, "/root/work/mut/verif/tools")
import mutdiff
REPO = "/root/work/mut/repo0"
ms = {}
for l in open("out/mutants.jsonl"):
    m = json.loads(l); ms[m["id"]] = m
eng = {}
for l in open("out/engines.tsv"):
    f = l.rstrip("\n").split("\t"); eng[f[0]] = f
tri = collections.OrderedDict()
for l in open("out/triage.tsv"):
    f = l.rstrip("\n").split("\t")
    tri[f[0]] = {"cls": f[1], "why": f[2], "demo": f[3] if len(f) > 3 else ""}
order = list(ms.keys())
def ids(cls):
    return [i for i in order if i in tri and tri[i]["cls"] == cls]
def chg(m):
    return (m["orig"].replace("\n", " ")[:50] + " -> " + (m["repl"].replace("\n", " ")[:50] or "(deleted)")).replace("|", "\\|").replace("\t", " ")
def ran(i):
    e = eng[i][2]
    return "none executes the block" if e == "(none)" else e
out = []
w = out.append
n = {c: len(ids(c)) for c in ("a", "b", "c", "c-")}
w("# Undetected mutants: triage\n")
w("Pinned trees: repository `53b1b2a`, framework `2454796`. %d mutants survived the existing tests AND every engine (3 seeds each where an engine executes the mutated block; see summary.md for the method). Each was read against the code:\n" % len(tri))
w("| class | meaning | mutants |\n|---|---|---|")
w("| (a) | equivalent / unobservable | %d |" % n["a"])
w("| (b) | observable, but outside all 20 properties (log text, event text, start-up / shutdown wiring, names nobody reads) | %d |" % n["b"])
w("| (c) | **real gap**: behaviour inside a property changes and no engine sees it | %d |" % n["c"])
w("| (c-) | gap of lesser weight: error paths of the hijack client (outside the letter of C19/C20) and the hash-label shortcut of EqualRevision (needs a rare input) | %d |" % n["c-"])
w("\nEvery class-(c)/(c-) mutant has a demonstration test under `demos/` (header line: package, `-run` expression, mutant ids); `tools/mutsweep.py demo` re-checks that each passes on the pristine tree and fails on each listed mutant (all verified, see the end of this file).\n")

groups = [
 ("G1", "hijack client: what Update / UpdateStatus / Patch return", "C19", ["hijack-015", "hijack-022", "hijack-063"], "demo_hijack_write_results_test.go",
  "Engines `codec` and `defaults` call `hc.Update` / `hc.UpdateStatus` but throw the returned object away (`_, err = hc.Update(...)`) and judge only a later `Get`; nothing calls `hc.Patch`.",
  "`codec`: add observation tokens `updret=` / `ustret=` (returned object non-nil, apps/v1-typed and semantically equal to the following Get) and a `patch=` step (merge-patch `spec.replicas` through `hc.Patch`, same comparison). Model side: the identity on the converted object (same as `lost=`)."),
 ("G2", "hijack client: server-side apply path", "C19", ["hijack-034", "hijack-037", "hijack-040", "hijack-043", "hijack-094", "hijack-097"], "demo_hijack_apply_test.go",
  "No engine calls `Apply`, `ApplyStatus` or `FromBuiltinStatefulSetApplyConfiguration` (coverage: the blocks are never executed). A mutant that drops the write silently (`hijack-034`) survives.",
  "`codec`: one more step per case: build the apply configuration of the generated object (`appsapplyv1.ExtractStatefulSet` or by JSON), send it through `hc.Apply` / `hc.ApplyStatus` against a fake whose `patch` reactor decodes apply patches (the object tracker has no server-side apply), observe `ap=<patches seen>:<apiVersion sent>:<result typed>:<equal>`; plus the pure round trip of `FromBuiltinStatefulSetApplyConfiguration` (JSON in = JSON out except apiVersion) next to the existing `From/ToBuiltin` checks."),
 ("G3", "hijack client: API errors must come out (borderline)", "C19 / C20 (not in the letter of either)", ["hijack-014", "hijack-016", "hijack-021", "hijack-023", "hijack-024", "hijack-026", "hijack-027", "hijack-029", "hijack-030", "hijack-032", "hijack-036", "hijack-038", "hijack-042", "hijack-044", "hijack-062", "hijack-064"], "demo_hijack_error_passthrough_test.go",
  "All engines give the hijack client a fake that never fails, so every `if err != nil { return nil, err }` after a call of the wrapped clientset is never executed. With the mutants a failed Get answers an EMPTY object and a nil error, a failed Update reports success, a failed Watch hands out a relay over a nil source.",
  "`codec`: a fault plan like the one of the `upgrade` engine: for each verb (create, update, updatestatus, get, list, patch, apply, watch) one case with an injected API error (NotFound / Conflict / server error) and the observation `err=<same error>:<result nil>`; clause `C19.errors-pass` (and `C20.open-error` for Watch in the `watch` engine). If the property owners do not want this inside C19, it is class (b)."),
 ("G4", "Upgrade: the object handed to Create still carries the built-in set's resourceVersion", "C17", ["upgrade-032"], "demo_upgrade_resourceversion_test.go",
  "The `upgrade` engine's fake API accepts a create with `metadata.resourceVersion` set and the write log does not show the field; a real API server answers 400 (`resourceVersion should not be set on objects to be created`), so with the mutant Upgrade can never succeed for a set read from the API.",
  "`upgrade`: give the generated built-in set a resourceVersion (objects read from an API always have one), record `rv=` of every created object in the write log and let the fake refuse such a create like the real storage layer (one `create` reactor); model: `create` precondition `rv = \"\"`. `C17.asfirst` / `C17.rerunok` then fail on the mutant."),
 ("G5", "a current revision that cannot be applied must be reported, not crash", "C15 / C09", ["control-113", "control-115", "utils-148", "utils-149", "utils-151"], "demo_corrupt_current_revision_test.go",
  "The ControllerRevision named by `status.currentRevision` is an admitted object whose `data` anybody can edit. Generators only store revisions whose data is a well-formed template patch, so the error branches of `ApplyRevision` and its caller are never executed. With the mutants the reconcile continues with a nil / half-restored \"current\" set: nil dereference when a pod has to be built at the current revision (C15), or `(nil, nil)` answered to `UpdateStatefulSet`, which dereferences the nil status.",
  "`sync` (and `reconcile`) generator: a stored revision named by `status.currentRevision` whose data is `[1]`, `\"x\"`, `{\"spec\":5}`, `{\"spec\":{\"template\":5}}`; model: `ApplyRevision` fails -> `out=err`, no write after the revision phase. The existing monitors `C15` (out=panic) and `C09.reported` then catch all five mutants."),
 ("G6", "two pod objects with the same ordinal among the condemned pods", "C05 / C03", ["control-192", "utils-187"], "demo_duplicate_condemned_ordinal_test.go",
  "`reconcile` generates duplicate ordinals only inside the desired range; `sync` has zero-padded names but never a canonical and a zero-padded pod of the same ordinal that are both condemned. The strictness of `ord < firstUnhealthyOrdinal` (condemned scan) and of `ascendingOrdinal.Less` decides which of the two twins is deleted / whether the scale-in waits.",
  "`reconcile` generator: let the duplicate-ordinal profile also pick ordinals >= bound and delete-slot ordinals, both twins healthy / both unhealthy / mixed; `sync`: add the zero-padded twin of a condemned member pod. The model already sorts and scans the same way (full-observation diff on `acts=`)."),
 ("G7", "the hash-label shortcut of EqualRevision never decides anything in a run (rare input)", "C08 / C18", ["history-019", "history-020", "history-023", "history-024", "history-025", "history-028", "history-029", "history-032", "history-033", "history-038"], "demo_equalrevision_numeric_labels_test.go",
  "`history-038` removes the shortcut (`both labels parse as int32 and differ => not equal`) altogether and `sync`, `syncmig`, `world`, `patch` stay silent over 3 seeds. Reason: one operand is always the freshly built revision, whose label is `SafeEncodeString(decimal)`: digits 0-5 map to digits, 6-9 to letters, so it parses only when the decimal hash uses no digit above 5 (about 0.6 % of templates); generators put numeric labels on STORED revisions only. When it does fire (a stored revision with equal data and another numeric label) the code cuts a new revision and the mutants reuse the stored one.",
  "Cheapest: a pure-function engine for `EqualRevision` / `FindEqualRevisions` (like `ordinals`): label pairs over {absent, textual, numeric small, 2^30..2^31-1, 2^31..2^32-1, negative} x data equal / different, enumerated exhaustively. Or in `sync`: rejection-sample a template annotation until the fresh hash label is all digits (about 170 tries) for a tenth of the cases that have a stored equal-data revision with a numeric label."),
 ("G8", "Run() / worker(): nothing checks that a queued key is ever reconciled", "C16 / C02", ["set-015", "set-016", "set-022", "set-023", "set-139", "set-140"], "demo_controller_run_loop_test.go",
  "`events` drives the handlers and ONE `processNextWorkItem` step through the hooks, `sync` / `world` call `sync()` directly; `Run` and `worker` are never executed. A controller whose Run returns before starting workers, starts `workers-1` workers, or whose worker never takes a key passes every check.",
  "`events` (or a small new engine `run`): start `Run(1, stop)` on hand-filled informers with a recording sync handler (hook), enqueue through a handler, observe `ran=<keys handed to sync within the step budget>`, then close `stop` and observe `shut=<queue.ShuttingDown()>`; clause `C16.worker-runs`. Keep it Serial and small (it needs real time)."),
]
ENG = {"G1": "codec (observation)", "G2": "codec (new step)", "G3": "codec, watch (fault plan)", "G4": "upgrade (observation + fake API rule)", "G5": "sync, reconcile (generator)",
       "G6": "reconcile, sync (generator)", "G7": "new pure-function engine, or sync (generator)", "G8": "events (new step) or a new engine `run`"}
w("## Class (c): real gaps\n")
w("| group | property | mutants | which engine should see it |\n|---|---|---|---|")
for g in groups:
    w("| %s %s | %s | %s | %s |" % (g[0], g[1], g[2], ", ".join(g[3]), ENG[g[0]]))
w("")
grouped = set()
for g in groups:
    gid, title, prop, gm, demo, why, fix = g
    grouped.update(gm)
    w("### %s — %s (%s)\n" % (gid, title, prop))
    w("**Why nothing sees it.** " + why + "\n")
    w("**Extension that would.** " + fix + "\n")
    w("| mutant | where | operator | engines that execute the block | effect |\n|---|---|---|---|---|")
    for i in gm:
        m = ms[i]
        w("| %s | %s:%d `%s` | %s | %s | %s |" % (i, os.path.basename(m["file"]), m["line"], m["func"], m["op"], ran(i), tri[i]["why"].replace("|", "\\|")))
    w("\nDiffs:\n\n```diff")
    for i in gm:
        w("# " + i)
        w(mutdiff.diff_of(REPO, ms[i], ctx=2).rstrip("\n"))
    w("```\n")
    w("Demonstration `demos/%s` (passes on the pristine tree, fails on each mutant above):\n\n```go" % demo)
    w(open("out/demos/" + demo).read().rstrip("\n"))
    w("```\n")
missing = [i for i in tri if tri[i]["cls"] in ("c", "c-") and i not in grouped]
assert not missing, missing
for cls, title in (("b", "Class (b): observable, outside all 20 properties"), ("a", "Class (a): equivalent / unobservable")):
    w("## %s\n" % title)
    w("| mutant | where | operator | change | engines that execute the block | why |\n|---|---|---|---|---|---|")
    for i in ids(cls):
        m = ms[i]
        w("| %s | %s:%d `%s` | %s | `%s` | %s | %s |" % (i, os.path.basename(m["file"]), m["line"], m["func"], m["op"], chg(m), ran(i), tri[i]["why"].replace("|", "\\|")))
    w("")
w("## Verification of the demonstrations\n\n```\n" + open("out/demos/VERIFIED.txt").read().rstrip("\n") + "\n```\n")
open("out/undetected.md", "w").write("\n".join(out) + "\n")
print(len(out), "lines")
