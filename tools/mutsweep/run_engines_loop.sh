#!/bin/bash
# phase B loop: keeps picking up the survivors of the (still running) test phase
cd /root/work/mut
export MUT_GOCACHE=/root/work/mut/gocache MUT_PROCS=2
while true; do
  if pgrep -f "mutsweep.py tests" > /dev/null; then W=/root/work/mut/verif:/root/work/mut/repo7,/root/work/mut/verif2:/root/work/mut/repo8; running=1
  else W=/root/work/mut/verif:/root/work/mut/repo7,/root/work/mut/verif2:/root/work/mut/repo8,/root/work/mut/verif3:/root/work/mut/repo9; running=0; fi
  python3 verif/tools/mutsweep.py engines --mutants out/mutants.jsonl --tests out/tests.tsv --workers $W --baseline out/baseline --cover out/cover.json --out out/engines.tsv --reports out/reports >> out/engines.log 2>&1
  [ $running = 0 ] && break
  sleep 20
done
echo ALLDONE >> out/engines.log
