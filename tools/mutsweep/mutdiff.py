#!/usr/bin/env python3
"""mutdiff.py <repo> <mutants.jsonl> <id>…   -- print the unified diff of each mutant against the pristine tree (git-apply-able)"""
import difflib
import json
import os
import sys


def diff_of(repo, m, ctx=3):
    path = os.path.join(repo, m["file"])
    src = open(path, "rb").read()
    new = src[:m["start"]] + m["repl"].encode() + src[m["end"]:]
    a = src.decode().splitlines(keepends=True)
    b = new.decode().splitlines(keepends=True)
    return "".join(difflib.unified_diff(a, b, "a/" + m["file"], "b/" + m["file"], n=ctx))


if __name__ == "__main__":
    repo, mfile = sys.argv[1], sys.argv[2]
    ms = {}
    for l in open(mfile):
        m = json.loads(l)
        ms[m["id"]] = m
    for i in sys.argv[3:]:
        print("# %s  %s:%d  %s  (%s)" % (i, ms[i]["file"], ms[i]["line"], ms[i]["op"], ms[i]["func"]))
        print(diff_of(repo, ms[i]))
