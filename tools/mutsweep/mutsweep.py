#!/usr/bin/env python3
"""Driver of the mutation sweep (tools/mutgen lists the mutants, tools/engines_once.sh runs the engines on one tree).

  mutsweep.py tests   --mutants M.jsonl --repos R1,R2,…            --out tests.tsv     [--ids a,b,…]
        per mutant: apply to a scratch worktree, build both modules (incl. -tags verif), run the existing tests
        status: nobuild | killed-by-tests | survived
  mutsweep.py cover   --verif V --repo R --out cover.json [--seeds 1,2,3]
        builds the harness with coverage instrumentation of the four packages under mutation and records, per engine, which
        source lines its baseline run executes (used to skip engines that cannot see a mutant: they never execute its block)
  mutsweep.py baseline --verif V --repo R --out DIR [--seeds 1,2,3]
        engines_once.sh on the unmutated tree, one report per seed (DIR/seed<n>.txt)
  mutsweep.py engines --mutants M.jsonl --tests tests.tsv --workers V1:R1,V2:R2,… --baseline DIR --cover cover.json --out engines.tsv
        per surviving mutant: seed 1 (stop at the first detecting engine), then seeds 2 and 3 before declaring it undetected
  mutsweep.py demo    --mutants M.jsonl --repo R demo_*_test.go
        checks the demonstration tests of the gaps: each passes on the pristine tree and fails on the mutants its header lists
  mutsweep.py report  --mutants M.jsonl --tests tests.tsv --engines engines.tsv --outdir OUT

A worker never edits /repo or /verif: R* are `git worktree`s of the repository, V* are copies of the framework.
"""
import argparse
import collections
import json
import os
import queue
import re
import subprocess
import sys
import threading
import time

HERE = os.path.dirname(os.path.abspath(__file__))
sys.path.insert(0, HERE)
import eo_summary  # noqa: E402

GOENV = dict(os.environ, GOFLAGS="-mod=mod", GOPROXY="off", GOSUMDB="off", GOTOOLCHAIN="local", CGO_ENABLED="0")
if os.environ.get("MUT_GOCACHE"):
    GOENV["GOCACHE"] = os.environ["MUT_GOCACHE"]
PROCS = os.environ.get("MUT_PROCS", "2")
GOENV["GOMAXPROCS"] = PROCS

ENGINE_ORDER = ["annot", "ordinals", "events", "reconcile", "podcontrol", "syncmig", "sync", "world", "defaults", "codec", "patch", "upgrade", "watch"]
PKGS = ["github.com/pingcap/advanced-statefulset/pkg/controller/statefulset", "github.com/pingcap/advanced-statefulset/pkg/third_party/k8s",
        "github.com/pingcap/advanced-statefulset/client/apis/apps/v1", "github.com/pingcap/advanced-statefulset/client/apis/apps/v1/helper"]
lock = threading.Lock()


def load_mutants(path):
    return [json.loads(l) for l in open(path) if l.strip()]


def sh(cmd, cwd=None, env=None, timeout=600):
    try:
        p = subprocess.run(cmd, cwd=cwd, env=env or GOENV, stdout=subprocess.PIPE, stderr=subprocess.STDOUT, timeout=timeout)
        return p.returncode, p.stdout.decode(errors="replace")
    except subprocess.TimeoutExpired as e:
        return 124, (e.stdout or b"").decode(errors="replace") + "\nTIMEOUT"


def restore(repo):
    subprocess.run(["git", "-C", repo, "checkout", "--", "."], check=True, stdout=subprocess.DEVNULL, stderr=subprocess.DEVNULL)


def apply_mutant(repo, m):
    restore(repo)
    path = os.path.join(repo, m["file"])
    src = open(path, "rb").read()
    orig = src[m["start"]:m["end"]].decode()
    assert orig.startswith(m["orig"].rstrip("…")), (m["id"], orig, m["orig"])
    open(path, "wb").write(src[:m["start"]] + m["repl"].encode() + src[m["end"]:])


def done_ids(path):
    ids = set()
    if os.path.exists(path):
        for l in open(path):
            f = l.rstrip("\n").split("\t")
            if f and f[0] != "id":
                ids.add(f[0])
    return ids


def append(path, row):
    with lock:
        with open(path, "a") as f:
            f.write("\t".join(str(x).replace("\t", " ").replace("\n", " ") for x in row) + "\n")


def pool(items, workers, fn):
    q = queue.Queue()
    for it in items:
        q.put(it)
    total = q.qsize()
    t0 = time.time()
    count = [0]

    def loop(w):
        while True:
            try:
                it = q.get_nowait()
            except queue.Empty:
                return
            try:
                fn(w, it)
            except Exception as e:  # keep the sweep alive
                print("ERROR", it.get("id"), repr(e), file=sys.stderr, flush=True)
            with lock:
                count[0] += 1
                if count[0] % 10 == 0:
                    el = time.time() - t0
                    print("[%d/%d] %.0fs elapsed, eta %.0f min" % (count[0], total, el, el / count[0] * (total - count[0]) / 60), file=sys.stderr, flush=True)
    ts = [threading.Thread(target=loop, args=(w,)) for w in workers]
    for t in ts:
        t.start()
    for t in ts:
        t.join()


# ---------------------------------------------------------------- phase A: build + existing tests

def first_fail(out):
    m = re.search(r"^\s*--- FAIL: (\S+)", out, re.M)
    if m:
        return m.group(1)
    m = re.search(r"^(panic: .*|fatal error: .*)$", out, re.M)
    if m:
        return m.group(1)[:80]
    if "TIMEOUT" in out or "test timed out" in out:
        return "timeout"
    return "fail"


def test_one(repo, m, out):
    apply_mutant(repo, m)
    try:
        client = m["file"].startswith("client/")
        p = ["-p", PROCS]
        steps = []
        if client:
            steps.append((["go", "build"] + p + ["./..."], os.path.join(repo, "client")))
        steps.append((["go", "build"] + p + ["./..."], repo))
        steps.append((["go", "build"] + p + ["-tags", "verif", "./..."], repo))
        # the existing tests first (they compile the mutated package: a compile error shows as [build failed]); the full builds of
        # both modules (incl. -tags verif) only for the mutants the tests let through
        tests = []
        if client:
            tests.append((["go", "test"] + p + ["-count=1", "-timeout", "90s", "./..."], os.path.join(repo, "client")))
        tests.append((["go", "test"] + p + ["-count=1", "-timeout", "90s", "./pkg/..."], repo))
        for cmd, cwd in tests:
            rc, o = sh(cmd, cwd=cwd, timeout=200)
            if rc != 0:
                if "[build failed]" in o or "[setup failed]" in o:
                    msg = re.search(r"^\S+\.go:\d+:\d+: .*$", o, re.M)
                    append(out, [m["id"], "nobuild", msg.group(0)[:160] if msg else "test build failed"])
                else:
                    append(out, [m["id"], "killed-by-tests", first_fail(o)])
                return
        for cmd, cwd in steps:
            rc, o = sh(cmd, cwd=cwd, timeout=900)
            if rc != 0:
                msg = re.search(r"^\S+\.go:\d+:\d+: .*$", o, re.M)
                append(out, [m["id"], "nobuild", msg.group(0)[:160] if msg else o[-160:]])
                return
        append(out, [m["id"], "survived", ""])
    finally:
        restore(repo)


def cmd_tests(a):
    ms = load_mutants(a.mutants)
    if a.ids:
        ms = [m for m in ms if m["id"] in set(a.ids.split(","))]
    have = done_ids(a.out)
    ms = [m for m in ms if m["id"] not in have]
    print("tests: %d mutants to do" % len(ms), file=sys.stderr)
    pool(ms, a.repos.split(","), lambda repo, m: test_one(repo, m, a.out))


# ---------------------------------------------------------------- coverage of the engines on the unmutated tree

def cmd_cover(a):
    V, R = a.verif, a.repo
    W = os.path.join(V, ".work")
    os.makedirs(os.path.join(W, "bin"), exist_ok=True)
    sums = set()
    for p in (os.path.join(R, "go.sum"), os.path.join(R, "client", "go.sum")):
        sums.update(open(p).read().splitlines())
    open(os.path.join(W, "go.cov.sum"), "w").write("\n".join(sorted(sums)) + "\n")
    mod = open(os.path.join(V, "harness", "go.mod")).read().replace("=> /repo/client", "=> " + R + "/client").replace("=> /repo\n", "=> " + R + "\n")
    open(os.path.join(W, "go.cov.mod"), "w").write(mod)
    H = os.path.join(W, "bin", "harness.cov")
    rc, o = sh(["go", "build", "-tags", "verif", "-cover", "-coverpkg=verif/harness," + ",".join(PKGS), "-modfile", os.path.join(W, "go.cov.mod"), "-o", H, "."], cwd=os.path.join(V, "harness"), timeout=1800)
    if rc != 0:
        sys.exit("cover build failed\n" + o)
    spec = subprocess.run(["bash", "-c", "grep -m1 '^SPEC=' %s/tools/engines_once.sh" % V], stdout=subprocess.PIPE).stdout.decode()
    spec = re.search(r'"([^"]+)"\}', spec).group(1).split()
    cover = {}
    for s in spec:
        E, N, enums = s.split(":")
        lines = collections.defaultdict(set)
        for seed in a.seeds.split(","):
            env = dict(GOENV, VERIF_SEED=seed, VERIF_REPO=R)
            cases = os.path.join(W, "cov.%s.cases" % E)
            with open(cases, "w") as f:
                d = os.path.join(V, "corpus", E)
                if os.path.isdir(d):
                    for fn in sorted(os.listdir(d)):
                        for l in open(os.path.join(d, fn)):
                            if l.strip() and not l.startswith("#"):
                                f.write(l if l.endswith("\n") else l + "\n")
            cd = os.path.join(W, "covdata", E, seed)
            subprocess.run(["rm", "-rf", cd])
            os.makedirs(cd)
            envc = dict(env, GOCOVERDIR=cd)
            with open(cases, "a") as f:
                subprocess.run([H, E, "gen", N], env=envc, stdout=f, check=True)
                for sc in [x for x in enums.split(",") if x]:
                    subprocess.run([H, E, "enum", sc], env=envc, stdout=f, check=True)
            with open(cases) as f:
                subprocess.run([H, E, "run"], env=envc, stdin=f, stdout=subprocess.DEVNULL, stderr=subprocess.DEVNULL)
            txt = os.path.join(W, "covdata", "%s.%s.txt" % (E, seed))
            subprocess.run(["go", "tool", "covdata", "textfmt", "-i=" + cd, "-o", txt], env=GOENV, check=True)
            for l in open(txt):
                mm = re.match(r"(\S+):(\d+)\.(\d+),(\d+)\.(\d+) (\d+) (\d+)$", l.strip())
                if mm and int(mm.group(7)) > 0:
                    f_ = mm.group(1).replace("github.com/pingcap/advanced-statefulset/client/", "client/").replace("github.com/pingcap/advanced-statefulset/", "")
                    lines[f_].add((int(mm.group(2)), int(mm.group(3)), int(mm.group(4)), int(mm.group(5))))
        cover[E] = {f_: sorted(v) for f_, v in lines.items()}
        print(E, {k.split("/")[-1]: len(v) for k, v in cover[E].items()}, file=sys.stderr, flush=True)
    # also the full block list (to tell "not in any block" = package level from "never executed")
    blocks = collections.defaultdict(set)
    for l in open(txt):
        mm = re.match(r"(\S+):(\d+)\.(\d+),(\d+)\.(\d+) (\d+) (\d+)$", l.strip())
        if mm:
            f_ = mm.group(1).replace("github.com/pingcap/advanced-statefulset/client/", "client/").replace("github.com/pingcap/advanced-statefulset/", "")
            blocks[f_].add((int(mm.group(2)), int(mm.group(3)), int(mm.group(4)), int(mm.group(5))))
    json.dump({"cover": cover, "blocks": {k: sorted(v) for k, v in blocks.items()}}, open(a.out, "w"))


def in_block(b, line, col):
    return (b[0], b[1]) <= (line, col) and (line, col) < (b[2], b[3])


def engines_for(cover, m):
    """engines whose baseline run executes the block holding the mutated code; all engines if it is in no block (package level)"""
    f, line, col = m["file"], m["line"], m["col"]
    if not any(in_block(b, line, col) for b in cover["blocks"].get(f, [])):
        return list(ENGINE_ORDER), "package-level"
    es = [E for E in ENGINE_ORDER if any(in_block(b, line, col) for b in cover["cover"].get(E, {}).get(f, []))]
    return es, ""


# ---------------------------------------------------------------- baseline

def run_engines(V, R, seed, report, engines=None, stop=None, lean=False):
    report = os.path.abspath(report)
    stop = os.path.abspath(stop) if stop else stop
    env = dict(GOENV, VERIF_REPO=R, VERIF_SEED=str(seed))
    if engines is not None:
        env["ENGINES"] = " ".join(engines) if engines else "none"
    if stop:
        env["STOP_ON_DETECT"] = stop
    if lean:
        env["LEAN_FACTS"] = "1"
    env["ENGINE_TIMEOUT"] = os.environ.get("ENGINE_TIMEOUT", "420")
    if os.path.exists(report):
        os.remove(report)
    subprocess.run([os.path.join(V, "tools", "engines_once.sh"), report], env=env, stdout=subprocess.DEVNULL, stderr=subprocess.DEVNULL, timeout=4 * 3600)
    return eo_summary.parse_report(report)


def cmd_baseline(a):
    os.makedirs(a.out, exist_ok=True)
    for seed in a.seeds.split(","):
        rep = os.path.join(a.out, "seed%s.txt" % seed)
        run_engines(a.verif, a.repo, seed, rep, lean=(seed == a.seeds.split(",")[0]))
        print(open(rep).read(), flush=True)


# ---------------------------------------------------------------- phase B: engines

def engine_one(worker, m, a, cover):
    V, R = worker.split(":")
    apply_mutant(R, m)
    try:
        es, note = engines_for(cover, m)
        seeds_run = []
        verdict = "undetected"
        # no engine executes the mutated block: only the harness build and the static fact extraction can see it (seed-independent)
        for seed in (a.seeds.split(",") if es else a.seeds.split(",")[:1]):
            base_path = os.path.join(a.baseline, "seed%s.txt" % seed)
            base = eo_summary.parse_report(base_path)
            rep_path = os.path.join(a.reports, "%s.seed%s.txt" % (m["id"], seed))
            rep = run_engines(V, R, seed, rep_path, engines=es, stop=base_path)
            seeds_run.append(seed)
            if rep["extract"] is not None and not rep["extract"].startswith("FAIL") and rep["extract"] != base["extract"] and seed == a.seeds.split(",")[0]:
                # the extracted facts changed: re-elaborate the `decide` fact theorems
                rep = run_engines(V, R, seed, rep_path, engines=es, stop=base_path, lean=True)
                note = (note + " facts-changed").strip()
            why = eo_summary.compare(base, rep)
            if why:
                verdict = "detected:" + ",".join(why)
                break
        append(a.out, [m["id"], verdict, " ".join(es) if es else "(none)", ",".join(seeds_run), note])
    finally:
        restore(R)


def cmd_engines(a):
    ms = load_mutants(a.mutants)
    status = {}
    for l in open(a.tests):
        f = l.rstrip("\n").split("\t")
        status[f[0]] = f[1]
    ms = [m for m in ms if status.get(m["id"]) == "survived"]
    if a.ids:
        ms = [m for m in ms if m["id"] in set(a.ids.split(","))]
    have = done_ids(a.out)
    ms = [m for m in ms if m["id"] not in have]
    cover = json.load(open(a.cover))
    os.makedirs(a.reports, exist_ok=True)
    print("engines: %d surviving mutants to do" % len(ms), file=sys.stderr)
    pool(ms, a.workers.split(","), lambda w, m: engine_one(w, m, a, cover))


# ---------------------------------------------------------------- report

def cmd_report(a):
    ms = load_mutants(a.mutants)
    tests = {}
    for l in open(a.tests):
        f = l.rstrip("\n").split("\t")
        tests[f[0]] = f
    eng = {}
    if a.engines and os.path.exists(a.engines):
        for l in open(a.engines):
            f = l.rstrip("\n").split("\t")
            eng[f[0]] = f
    os.makedirs(a.outdir, exist_ok=True)
    rows = []
    for m in ms:
        t = tests.get(m["id"])
        if t is None:
            st, detail = "not-run", ""
        elif t[1] != "survived":
            st, detail = t[1], t[2] if len(t) > 2 else ""
        elif m["id"] in eng:
            e = eng[m["id"]]
            st, detail = e[1], "engines run: %s; seeds %s %s" % (e[2], e[3], e[4] if len(e) > 4 else "")
        else:
            st, detail = "survived-not-run", ""
        rows.append((m["id"], m["file"], m["line"], m["op"], st, m["func"], m["orig"].replace("\n", "\\n")[:80] + " -> " + m["repl"].replace("\n", "\\n")[:80], detail))
    with open(os.path.join(a.outdir, "mutants.tsv"), "w") as f:
        f.write("id\tfile\tline\toperator\tstatus\tfunction\tchange\tdetail\n")
        for r in rows:
            f.write("\t".join(str(x).replace("\t", " ") for x in r) + "\n")
    # summary
    def cls(st):
        return "detected" if st.startswith("detected") else st
    files = []
    for m in ms:
        if m["file"] not in files:
            files.append(m["file"])
    stats = ["nobuild", "killed-by-tests", "detected", "undetected", "survived-not-run", "not-run"]
    tab = {f: collections.Counter() for f in files}
    for r in rows:
        tab[r[1]][cls(r[4])] += 1
    out = ["# Mutation sweep: summary", "", "| file | mutants | " + " | ".join(stats) + " | score tests | score tests+engines |", "|---|---|" + "---|" * (len(stats) + 2)]
    tot = collections.Counter()

    def score(c):
        valid = c["killed-by-tests"] + c["detected"] + c["undetected"]
        if not valid:
            return "-", "-"
        return "%.1f %%" % (100.0 * c["killed-by-tests"] / valid), "%.1f %%" % (100.0 * (c["killed-by-tests"] + c["detected"]) / valid)
    for f in files:
        c = tab[f]
        tot.update(c)
        s1, s2 = score(c)
        out.append("| %s | %d | " % (f, sum(c.values())) + " | ".join(str(c[s]) for s in stats) + " | %s | %s |" % (s1, s2))
    s1, s2 = score(tot)
    out.append("| **total** | %d | " % sum(tot.values()) + " | ".join(str(tot[s]) for s in stats) + " | %s | %s |" % (s1, s2))
    out += ["", "Scores are over the mutants that build and were taken through both phases (killed + detected + undetected).", ""]
    byop = collections.defaultdict(collections.Counter)
    for r in rows:
        byop[r[3]][cls(r[4])] += 1
    out += ["| operator | mutants | " + " | ".join(stats) + " |", "|---|---|" + "---|" * len(stats)]
    for op in sorted(byop):
        c = byop[op]
        out.append("| %s | %d | " % (op, sum(c.values())) + " | ".join(str(c[s]) for s in stats) + " |")
    det = collections.Counter()
    for r in rows:
        if r[4].startswith("detected:"):
            for part in r[4][len("detected:"):].split(","):
                head = part.split(":")[0]
                if head in ENGINE_ORDER or head in ("harness-build", "extract-fail", "lean-facts"):
                    det[head] += 1
    out += ["", "Detections by engine (first detecting engine of the run; a run stops at the first engine that detects):", ""]
    for k, v in det.most_common():
        out.append("* %s: %d" % (k, v))
    open(os.path.join(a.outdir, "summary_tables.md"), "w").write("\n".join(out) + "\n")
    print("\n".join(out))


# ---------------------------------------------------------------- demonstration tests of class-(c) gaps

def cmd_demo(a):
    """each demo file starts with a header line `// demo: <pkg dir relative to the tree> -run <regexp> mutants: id1 id2 …`;
    it must pass on the pristine tree and fail on every listed mutant"""
    ms = {m["id"]: m for m in load_mutants(a.mutants)}
    repo = a.repo
    ok_all = True
    for path in a.files:
        hdr = open(path).readline()
        mm = re.match(r"// demo: (\S+) -run (\S+) mutants: (.*)$", hdr.strip())
        if not mm:
            print("%s: no demo header" % path)
            ok_all = False
            continue
        pkg, run, ids = mm.group(1), mm.group(2), mm.group(3).split()
        mod = os.path.join(repo, "client") if pkg.startswith("client/") else repo
        rel = pkg[len("client/"):] if pkg.startswith("client/") else pkg
        dst = os.path.join(repo, pkg, "zz_mutdemo_test.go")
        restore(repo)
        try:
            open(dst, "w").write(open(path).read())
            rc, o = sh(["go", "test", "-count=1", "-timeout", "120s", "-run", run, "./" + rel + "/"], cwd=mod, timeout=300)
            print("%s: pristine %s" % (os.path.basename(path), "pass" if rc == 0 else "FAIL (demo is wrong)\n" + o[-800:]))
            ok_all &= rc == 0
            for i in ids:
                apply_mutant(repo, ms[i])
                open(dst, "w").write(open(path).read())
                rc, o = sh(["go", "test", "-count=1", "-timeout", "120s", "-run", run, "./" + rel + "/"], cwd=mod, timeout=300)
                line = re.search(r"^\s+\S+_test.go:\d+: .*$|^panic: .*$", o, re.M)
                print("   %s: %s" % (i, ("fails as expected: " + (line.group(0).strip()[:200] if line else "")) if rc != 0 else "PASSES ON THE MUTANT (no demonstration)"))
                ok_all &= rc != 0
        finally:
            if os.path.exists(dst):
                os.remove(dst)
            restore(repo)
    sys.exit(0 if ok_all else 1)


def main():
    ap = argparse.ArgumentParser()
    sub = ap.add_subparsers(dest="cmd")
    p = sub.add_parser("tests"); p.add_argument("--mutants"); p.add_argument("--repos"); p.add_argument("--out"); p.add_argument("--ids", default="")
    p = sub.add_parser("cover"); p.add_argument("--verif"); p.add_argument("--repo"); p.add_argument("--out"); p.add_argument("--seeds", default="1,2,3")
    p = sub.add_parser("baseline"); p.add_argument("--verif"); p.add_argument("--repo"); p.add_argument("--out"); p.add_argument("--seeds", default="1,2,3")
    p = sub.add_parser("engines"); p.add_argument("--mutants"); p.add_argument("--tests"); p.add_argument("--workers"); p.add_argument("--baseline"); p.add_argument("--cover")
    p.add_argument("--out"); p.add_argument("--reports"); p.add_argument("--seeds", default="1,2,3"); p.add_argument("--ids", default="")
    p = sub.add_parser("report"); p.add_argument("--mutants"); p.add_argument("--tests"); p.add_argument("--engines", default=""); p.add_argument("--outdir")
    p = sub.add_parser("demo"); p.add_argument("--mutants"); p.add_argument("--repo"); p.add_argument("files", nargs="+")
    a = ap.parse_args()
    {"tests": cmd_tests, "cover": cmd_cover, "baseline": cmd_baseline, "engines": cmd_engines, "report": cmd_report, "demo": cmd_demo}[a.cmd](a)


if __name__ == "__main__":
    main()
