#!/usr/bin/env python3
"""Helpers of tools/engines_once.sh.

eo_summary.py line <impl.txt> <model.out> <engine> <n> <fatal>   -> one report line (details of the first differences on stderr)
eo_summary.py detected <baseline report> <report line>           -> exit 0 iff the line shows a detection relative to the baseline
eo_summary.py compare <baseline report> <report>                 -> prints `detected:<engine:what,…>` or `undetected`
"""
import re
import sys


def parse_line(l):
    f = l.split()
    d = int(f[f.index("diff") + 1])
    m = f[f.index("mon") + 1] if "mon" in f and f.index("mon") + 1 < len(f) else "-"
    cl = {} if m == "-" else dict((x.rsplit("=", 1)[0], int(x.rsplit("=", 1)[1])) for x in m.split(","))
    fatal = f[f.index("fatal") + 1] if "fatal" in f else ""
    return d, cl, fatal


def parse_report(path):
    r = {"engines": {}, "build": None, "extract": None, "lean": None}
    for l in open(path):
        f = l.split()
        if not f:
            continue
        if f[0] == "engine":
            r["engines"][f[1]] = parse_line(l)
        elif f[0] in ("build", "extract", "lean"):
            r[f[0]] = " ".join(f[1:])
    return r


def line_detect(base, eng, cur):
    """list of reasons why `cur` (d, clauses, fatal) of engine eng is a detection relative to base"""
    if eng not in base["engines"]:
        return []
    bd, bcl, bf = base["engines"][eng]
    d, cl, fatal = cur
    why = []
    if d > bd:
        why.append("diff=%d" % (d - bd))
    for k in sorted(cl):
        if k not in bcl:
            why.append(k)
        elif cl[k] > bcl[k]:
            why.append("%s+%d" % (k, cl[k] - bcl[k]))
    if fatal and not bf:
        why.append("fatal=" + fatal[:60])
    return why


def compare(base, rep):
    why = []
    if rep["build"] is not None and not rep["build"].startswith("ok"):
        why.append("harness-build")
    if rep["extract"] is not None and rep["extract"].startswith("FAIL"):
        why.append("extract-fail")
    if rep["lean"] is not None and rep["lean"].startswith("FAIL"):
        why.append("lean-facts")
    for eng, cur in rep["engines"].items():
        w = line_detect(base, eng, cur)
        if w:
            why.append(eng + ":" + "+".join(w))
    return why


def main():
    cmd = sys.argv[1]
    if cmd == "line":
        impl = open(sys.argv[2], errors="replace").read().split("\n")
        model = open(sys.argv[3], errors="replace").read().split("\n")
        E, n, fatal = sys.argv[4], int(sys.argv[5]), sys.argv[6]
        d = 0
        m = {}
        for i in range(max(len(impl), len(model))):
            il = impl[i] if i < len(impl) else ""
            ml = model[i] if i < len(model) else ""
            if il == "" and ml == "":
                continue
            case, _, obs = il.partition(" => ")
            obs = re.sub(r" site=.*", "", obs)
            p = ml.split("\t")
            while len(p) < 3:
                p.append("")
            if obs != p[0]:
                d += 1
                if d <= 2:
                    print("DIFF %s line %d\n  case : %s\n  impl : %s\n  model: %s" % (E, i + 1, case[:400], obs[:600], p[0][:600]), file=sys.stderr)
            if p[1] not in ("ok", ""):
                for c in p[1].split(","):
                    m[c] = m.get(c, 0) + 1
                    if m[c] == 1:
                        print("MON %s %s line %d\n  case : %s" % (E, c, i + 1, case[:400]), file=sys.stderr)
        s = ",".join("%s=%d" % (k, m[k]) for k in sorted(m)) or "-"
        print("engine %s cases %d diff %d mon %s%s" % (E, n, d, s, (" fatal " + fatal) if fatal else ""))
    elif cmd == "detected":
        base = parse_report(sys.argv[2])
        f = sys.argv[3].split()
        sys.exit(0 if line_detect(base, f[1], parse_line(sys.argv[3])) else 1)
    elif cmd == "compare":
        why = compare(parse_report(sys.argv[2]), parse_report(sys.argv[3]))
        print(("detected:" + ",".join(why)) if why else "undetected")


if __name__ == "__main__":
    main()
