#!/usr/bin/env python3
"""Mutation sanity check for the `events` engine (C16).

Needs a git worktree of /repo at /root/work/events/repo-wt with proposed-fix-C16.diff applied (so that the baseline is
clean) and harness/go.mod's two `replace` lines pointing at it. For every mutation: patch the worktree, build a harness,
run corpus + 20000 generated + the enumerated scope through the real (mutated) code and the model, print the number of
correspondence differences and of monitor failures per clause, and restore the file.   usage: tools/mutate_events.py [name ...]
"""
import subprocess, sys, os
WT='/root/work/events/repo-wt'
V='/root/work/events/verif'
SS=WT+'/pkg/controller/statefulset/stateful_set.go'
LS=WT+'/client/client/listers/apps/v1/expansion_generated.go'
MUT = {
 'M1-old-owner-not-enqueued': (SS, '''	if controllerRefChanged && oldControllerRef != nil {''', '''	if false && controllerRefChanged && oldControllerRef != nil {'''),
 'M2-forget-on-error': (SS, '''		ssc.queue.AddRateLimited(key)
	} else {''', '''		ssc.queue.Forget(key)
	} else {'''),
 'M2b-add-without-backoff': (SS, '''		ssc.queue.AddRateLimited(key)
	} else {''', '''		ssc.queue.Add(key)
	} else {'''),
 'M3-no-uid-check': (SS, '''	if set.UID != controllerRef.UID {''', '''	if false && set.UID != controllerRef.UID {'''),
 'M4-tombstone-ignored': (SS, '''		tombstone, ok := obj.(cache.DeletedFinalStateUnknown)
		if !ok {''', '''		tombstone, ok := obj.(cache.DeletedFinalStateUnknown)
		if ok || !ok {'''),
 'M5-terminating-add-ignored': (SS, '''		ssc.deletePod(pod)
		return
	}

	// If it has a ControllerRef, that's all that matters.
	if controllerRef := metav1.GetControllerOf(pod); controllerRef != nil {''', '''		return
	}

	// If it has a ControllerRef, that's all that matters.
	if controllerRef := metav1.GetControllerOf(pod); controllerRef != nil {'''),
 'M6-set-delete-not-wired': (SS, '''			DeleteFunc: ssc.enqueueStatefulSet,
		},
	)
	ssc.setLister''', '''		},
	)
	ssc.setLister'''),
 'M6b-set-update-only-on-replica-change': (SS, '''				}
				ssc.enqueueStatefulSet(cur)''', '''					ssc.enqueueStatefulSet(cur)
				}'''),
 'M7-released-pod-not-offered': (SS, '''	if labelChanged || controllerRefChanged {''', '''	if labelChanged {'''),
 'M8-no-forget-on-success': (SS, '''	} else {
		ssc.queue.Forget(key)
	}''', '''	}'''),
 'M9-empty-selector-matches-all': (LS, '''		if selector.Empty() || !selector.Matches(labels.Set(pod.Labels)) {''', '''		if !selector.Matches(labels.Set(pod.Labels)) {'''),
 'M10-kind-not-checked': (SS, '''	if controllerRef.Kind != controllerKind.Kind {''', '''	if false && controllerRef.Kind != controllerKind.Kind {'''),
 'M11-pod-delete-not-wired': (SS, '''		DeleteFunc: ssc.deletePod,
''', ''''''),
 'M12-update-uses-old-labels-for-match': (SS, '''		sets := ssc.getStatefulSetsForPod(curPod)
		if len(sets) == 0 {
			return
		}
		klog.V(4).Infof("Orphan Pod %s updated''', '''		sets := ssc.getStatefulSetsForPod(oldPod)
		if len(sets) == 0 {
			return
		}
		klog.V(4).Infof("Orphan Pod %s updated'''),
}
names = sys.argv[1:] or list(MUT)
env=dict(os.environ, GOFLAGS='-mod=mod', GOPROXY='off', GOSUMDB='off', GOTOOLCHAIN='local', CGO_ENABLED='0')
for n in names:
    f, old, new = MUT[n]
    src=open(f).read()
    assert src.count(old)==1, (n, src.count(old))
    open(f,'w').write(src.replace(old,new))
    try:
        r=subprocess.run(['go','build','-tags','verif','-o',V+'/.work/bin/harness-mut','.'],cwd=V+'/harness',env=env,capture_output=True,text=True)
        if r.returncode!=0:
            print(n,'DOES NOT COMPILE',r.stderr[-400:]); continue
        cases=subprocess.run(['bash',V+'/tools/mutrun_events.sh'],capture_output=True,text=True,env=env)
        print(n, cases.stdout.strip(), cases.stderr.strip()[-300:])
    finally:
        open(f,'w').write(src)
