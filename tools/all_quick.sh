#!/bin/bash
# run every claimed quick check on the current /repo; prints one line per check and any VIOLATION / KNOWN-FINDING line
cd "$(dirname "$0")/.."
for c in $(python3 -c "import json;print(' '.join(x['property_id'] for x in json.load(open('MANIFEST.json'))['checks']))"); do
  ./check $c 2>&1 | grep -E "VIOLATION|KNOWN-FINDING|^\[" | cut -c1-200
done
