#!/bin/bash
# Mutation sanity check for C19: applies small realistic changes to a scratch worktree of /repo, rebuilds the harness against
# it and reports the monitor failures the three engines see.   usage: tools/mutations_C19.sh <worktree> [mutation ...]
# (harness/go.mod's two replace lines must point at the worktree while this runs)
set -u
WT=$1; shift
cd "$(dirname "$0")/.."
export GOFLAGS=-mod=mod GOPROXY=off GOSUMDB=off GOTOOLCHAIN=local CGO_ENABLED=0
H=$WT/client/apis/apps/v1/helper
V=$WT/client/apis/apps/v1
M=lean/.lake/build/bin/asts-model
declare -A PATCH ENGINE FILE
mut() { ENGINE[$1]=$2; FILE[$1]=$3; PATCH[$1]=$4; }
mut m1_set_replaces_map annot $H/helper.go 's#\t\tif annotations == nil \{\n\t\t\tannotations = make\(map\[string\]string\)\n\t\t\}\n\t\tannotations\[DeleteSlotsAnn\]#\t\tannotations = make(map[string]string)\n\t\tannotations[DeleteSlotsAnn]#'
mut m2_add_overwrites annot $H/helper.go 's#return SetDeleteSlots\(set, currentDeleteSlots.Union\(deleteSlots\)\)#_ = currentDeleteSlots\n\treturn SetDeleteSlots(set, deleteSlots)#'
mut m3_empty_set_written annot $H/helper.go 's#if deleteSlots == nil \|\| deleteSlots.Len\(\) == 0 \{#if deleteSlots == nil {#'
mut m4_pause_spelling annot $H/helper.go 's#annotations\[PausedReconcileAnn\] = "true"#annotations[PausedReconcileAnn] = "True"#'
mut m5_defaulter_appends defaults $V/third_party/k8s/defaults.go 's#\tif obj.TerminationMessagePath == "" \{#\tobj.Args = append(obj.Args, "--defaulted")\n\tif obj.TerminationMessagePath == "" {#'
mut m6_json_tag codec $V/types.go 's#json:"partition,omitempty"#json:"partitions,omitempty"#'
mut m7_pause_clears_map annot $H/helper.go 's#\t\tdelete\(annotations, PausedReconcileAnn\)#\t\tannotations = map[string]string{}#'
mut m8_list_items_untyped codec $H/hijack.go 's#\t\tsts.TypeMeta.APIVersion = appsv1.SchemeGroupVersion.String\(\)\n\t\tnewList.Items\[i\] = sts#\t\tnewList.Items[i] = sts#'
mut m9_from_untyped codec $H/hijack.go 's#\tnewSet.TypeMeta.APIVersion = asv1.SchemeGroupVersion.String\(\)\n\treturn newSet, nil#\treturn newSet, nil#'
mut m10_list_drops_last codec $H/hijack.go 's#\treturn newList, nil#\tif len(newList.Items) > 1 {\n\t\tnewList.Items = newList.Items[:len(newList.Items)-1]\n\t}\n\treturn newList, nil#'
mut m11_probe_rule defaults $V/third_party/k8s/defaults.go 's#\tif obj.PeriodSeconds == 0 \{\n\t\tobj.PeriodSeconds = 10#\tif obj.PeriodSeconds < 10 {\n\t\tobj.PeriodSeconds += 10#'
mut m12_status_dropped codec $V/types.go 's#json:"collisionCount,omitempty"#json:"-"#'
mut m13_rounding_steps defaults $V/third_party/k8s/defaults.go 's#\t\tval.RoundUp\(milliScale\)#\t\tval.RoundUp(milliScale)\n\t\tval.Add(*resource.NewMilliQuantity(1, val.Format))#; s#import \(#import (\n\t"k8s.io/apimachinery/pkg/api/resource"#'
mut m14_update_skips_conversion_of_status codec $H/hijack.go 's#func \(s \*hijackStatefulSet\) Get\(ctx context.Context, name string, options metav1.GetOptions\) \(\*appsv1.StatefulSet, error\) \{\n\tpcsts, err := s.StatefulSetInterface.Get\(ctx, name, options\)\n\tif err != nil \{\n\t\treturn nil, err\n\t\}#func (s *hijackStatefulSet) Get(ctx context.Context, name string, options metav1.GetOptions) (*appsv1.StatefulSet, error) {\n\tpcsts, err := s.StatefulSetInterface.Get(ctx, name, options)\n\tif err != nil {\n\t\treturn nil, err\n\t}\n\tpcsts = pcsts.DeepCopy()\n\tpcsts.Status.Conditions = nil#'
mut m15_strategy_onDelete_block defaults $V/defaults.go 's#\tif obj.Spec.Replicas == nil \{#\tif obj.Spec.UpdateStrategy.Type == OnDeleteStatefulSetStrategyType \&\& obj.Spec.UpdateStrategy.RollingUpdate == nil {\n\t\tobj.Spec.UpdateStrategy.Type = RollingUpdateStatefulSetStrategyType\n\t}\n\tif obj.Spec.Replicas == nil {#'
ALL=${@:-m1_set_replaces_map m2_add_overwrites m3_empty_set_written m4_pause_spelling m5_defaulter_appends m6_json_tag m7_pause_clears_map m8_list_items_untyped m9_from_untyped m10_list_drops_last m11_probe_rule m12_status_dropped m13_rounding_steps m14_update_skips_conversion_of_status m15_strategy_onDelete_block}
for m in $ALL; do
  git -C $WT checkout -q -- . 
  f=${FILE[$m]}
  before=$(md5sum < $f)
  perl -0pi -e "${PATCH[$m]}" $f
  if [ "$before" = "$(md5sum < $f)" ]; then echo "$m: PATCH DID NOT APPLY"; continue; fi
  if ! (cd harness && go build -tags verif -o ../.work/bin/harness-mut . 2>../.work/mut.err); then echo "$m: does not compile: $(head -3 .work/mut.err | tr '\n' ' ')"; continue; fi
  E=${ENGINE_OVERRIDE:-${ENGINE[$m]}}
  N=3000; [ $E = annot ] && N=20000
  .work/bin/harness-mut $E gen $N | .work/bin/harness-mut $E run > .work/mut.txt
  $M $E < .work/mut.txt > .work/mut.out
  res=$(paste -d'\t' <(sed 's/.* => //; s/ site=.*//' .work/mut.txt) .work/mut.out | awk -F'\t' '{ if ($1!=$2) d++; if ($3!="ok") { n=split($3,cl,","); for(i=1;i<=n;i++) m[cl[i]]++ } } END { printf "diff=%d", d+0; for (k in m) printf " %s=%d", k, m[k] }')
  echo "$m [$E]: $res"
done
git -C $WT checkout -q -- .
