#!/usr/bin/env python3
"""Regenerate MANIFEST.json from vlib/props.py (claimed properties) and tools/manifest_meta.json (texts)."""
import json, os, sys
ROOT = os.path.dirname(os.path.dirname(os.path.abspath(__file__)))
sys.path.insert(0, ROOT)
from vlib import props as P

meta = json.load(open(os.path.join(ROOT, "tools", "manifest_meta.json")))
all_ids = [json.loads(l)["id"] for l in open(os.path.join(ROOT, "properties.jsonl")) if l.strip()]
checks = []
for pid in all_ids:
    if pid not in P.PROPS or pid in meta.get("not_applicable", {}) or not P.PROPS[pid].get("claimed", True):
        continue
    spec = P.PROPS[pid]
    m = meta["checks"].get(pid, {})
    engines = sorted({r["engine"] for r in spec["runs"]})
    checks.append({
        "property_id": pid,
        "engine": "+".join(engines),
        "quick_cmd": "./check %s --tier quick" % pid,
        "thorough_cmd": "./check %s --tier thorough" % pid,
        "replay_cmd_template": "./check %s --replay {path}" % pid,
        "evidence_file": "evidence/%s.json" % pid,
        "level_claimed": {"category": spec.get("level", "proof"), "text": m.get("text", ""), "design_ref": "DESIGN.md section 6 " + pid},
        "level_note": m.get("note", meta["default_note"]),
        "technique": m.get("technique", "Lean 4 theorems over a hand-written model; differential correspondence with the Go code; monitor"),
    })
na = []
for pid in all_ids:
    if pid in meta.get("not_applicable", {}):
        na.append({"property_id": pid, "reason": meta["not_applicable"][pid]})
    elif pid not in P.PROPS or not P.PROPS[pid].get("claimed", True):
        na.append({"property_id": pid, "reason": "not claimed yet: its engine and theorems are still under construction (see DESIGN.md section 6 %s)" % pid})
hooks = meta["hooks"]
man = {
    "version": 1,
    "setup_cmd": "./setup.sh",
    "hooks": hooks,
    "engines": meta["engines"],
    "checks": checks,
    "notes": meta["notes"],
    "not_applicable": na,
}
json.dump(man, open(os.path.join(ROOT, "MANIFEST.json"), "w"), indent=1)
print("checks:", [c["property_id"] for c in checks], "not_applicable:", [n["property_id"] for n in na])
