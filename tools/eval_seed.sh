#!/bin/bash
# usage: tools/eval_seed.sh <out-dir> <n> <Cnn>...
# Confirms an independently written seeded change (patch<n>.diff + demo<n>_test.go in <out-dir>) in a scratch worktree:
#   existing tests pass with the patch, the demonstration fails with it and passes without it;
# then applies it to /repo, runs the given checks, and undoes it.
set -u
OUT=$(realpath $1); N=$2; shift 2
export GOFLAGS=-mod=mod GOPROXY=off GOSUMDB=off GOTOOLCHAIN=local
WT=/tmp/seedchk-$$
git -C /repo worktree add -q --detach $WT HEAD || exit 2
trap 'git -C /repo worktree remove --force $WT >/dev/null 2>&1' EXIT
P=$OUT/patch$N.diff; D=$OUT/demo${N}_test.go
hdr=$(head -1 $D)
pkg=$(echo "$hdr" | grep -oE '(pkg|client)/[A-Za-z0-9_/.]+' | head -1 | sed 's,/$,,')
run=$(echo "$hdr" | grep -oE "\-run '?[A-Za-z0-9_|^$]+'?" | head -1 | sed "s/-run //; s/'//g")
case "$pkg" in client/*) mod=$WT/client; rel=${pkg#client/};; *) mod=$WT; rel=$pkg;; esac
echo "[seed] package=$pkg run=$run"
cp $D $WT/$pkg/zz_seed_demo_test.go
(cd $mod && go test -count=1 -run "$run" ./$rel/ >/tmp/seedchk.$$.log 2>&1) && echo "[seed] demo passes on the unmodified tree" || { echo "[seed] DEMO FAILS WITHOUT THE PATCH"; tail -5 /tmp/seedchk.$$.log; }
git -C $WT apply $P || { echo "[seed] patch does not apply"; exit 2; }
(cd $mod && go test -count=1 -run "$run" ./$rel/ >/tmp/seedchk.$$.log 2>&1) && echo "[seed] DEMO PASSES WITH THE PATCH (not a breaking change?)" || echo "[seed] demo fails with the patch: $(grep -m1 -E '^\s+\S+_test.go|--- FAIL' /tmp/seedchk.$$.log | head -1 | cut -c1-160)"
rm $WT/$pkg/zz_seed_demo_test.go
(cd $WT && go build ./... && go build -tags verif ./... && go test -count=1 ./pkg/... >/tmp/seedchk.$$.log 2>&1 && cd client && go build ./... && go test -count=1 ./... >>/tmp/seedchk.$$.log 2>&1) && echo "[seed] builds (incl. -tags verif) and the existing tests pass with the patch" || { echo "[seed] EXISTING TESTS OR BUILD FAIL WITH THE PATCH"; grep -E "FAIL|error" /tmp/seedchk.$$.log | head -5; }
rm -f /tmp/seedchk.$$.log
cd "$(dirname "$0")/.."
git -C /repo apply $P || exit 2
for c in "$@"; do ./check $c 2>&1 | grep -E "VIOLATION|KNOWN|^\[" | head -4; done
git -C /repo checkout -- . ; git -C /repo status --short
