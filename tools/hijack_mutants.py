#!/usr/bin/env python3
"""usage: tools/hijack_mutants.py <repo-worktree> [id ...] [--extra <dir with *.diff>]

Applies every G1 / G2 / G3 mutant of seeded/mutation-sweep/undetected.md (or the named ones, or the *.diff files of --extra)
to <repo-worktree> (a scratch `git worktree` of /repo, reset before and after each), rebuilds the harness against it
(-modfile, the framework's own go.mod is not touched) and runs the `hijack` engine (corpus + 2500 generated + enum single) through the
real code and the model. Prints per mutant: build, number of full-observation differences, failed monitor clauses with counts."""
import collections
import os
import re
import subprocess
import sys

V = os.path.dirname(os.path.dirname(os.path.abspath(__file__)))
ENV = dict(os.environ, GOFLAGS="-mod=mod", GOPROXY="off", GOSUMDB="off", GOTOOLCHAIN="local", CGO_ENABLED="0")


def sh(cmd, **kw):
    return subprocess.run(cmd, shell=True, env=ENV, stdout=subprocess.PIPE, stderr=subprocess.STDOUT, **kw)


def mutants_from_md():
    text = open(os.path.join(V, "seeded/mutation-sweep/undetected.md")).read()
    out = collections.OrderedDict()
    for sec in re.split(r"^### ", text, flags=re.M):
        if not re.match(r"G[123] ", sec):
            continue
        for block in re.findall(r"```diff\n(.*?)```", sec, flags=re.S):
            for part in re.split(r"^# (hijack-\d+)\n", block, flags=re.M)[1:]:
                pass
            parts = re.split(r"^# (hijack-\d+)\n", block, flags=re.M)
            for i in range(1, len(parts), 2):
                out[parts[i]] = parts[i + 1]
    return out


def run_engine(wt, tag):
    w = os.path.join(V, ".work")
    os.makedirs(os.path.join(w, "bin"), exist_ok=True)
    alt = os.path.join(w, "go.hj.mod")
    mod = open(os.path.join(V, "harness/go.mod")).read()
    mod = mod.replace("=> /repo/client", "=> %s/client" % wt)
    mod = re.sub(r"=> /repo$", "=> %s" % wt, mod, flags=re.M)
    open(alt, "w").write(mod)
    sumf = os.path.join(w, "go.hj.sum")
    if not os.path.exists(sumf):
        sh("cp %s/harness/go.sum %s" % (V, sumf))
    h = os.path.join(w, "bin", "harness-hj")
    r = sh("cd %s/harness && go build -tags verif -modfile %s -o %s ." % (V, alt, h))
    if r.returncode != 0:
        return "build FAIL " + r.stdout.decode()[-300:].replace("\n", " ")
    cases = os.path.join(w, "hj-mut.cases")
    obs = os.path.join(w, "hj-mut.txt")
    sh("( grep -hv '^#' %s/corpus/hijack/*.txt; %s hijack gen 2500; %s hijack enum single ) > %s" % (V, h, h, cases))
    r = sh("%s hijack run < %s > %s" % (h, cases, obs), timeout=600)
    if r.returncode != 0:
        return "run FAIL rc=%d %s" % (r.returncode, r.stdout.decode()[-300:].replace("\n", " "))
    m = sh("%s/lean/.lake/build/bin/asts-model hijack < %s" % (V, obs))
    model = m.stdout.decode().split("\n")
    impl = open(obs).read().split("\n")
    diff = 0
    mon = collections.Counter()
    first = {}
    for a, b in zip(impl, model):
        if not a:
            continue
        o = a.split(" => ", 1)[1]
        f = b.split("\t")
        if len(f) < 3:
            continue
        if o != f[0]:
            diff += 1
        if f[1] != "ok":
            for c in f[1].split(","):
                mon[c] += 1
                first.setdefault(c, a.split(" => ")[0].split("|")[1][:60])
    return "cases %d diff %d mon %s" % (len([x for x in impl if x]), diff, ",".join("%s=%d" % kv for kv in sorted(mon.items())) or "-")


def main():
    args = sys.argv[1:]
    wt = args.pop(0)
    extra = None
    if "--extra" in args:
        i = args.index("--extra")
        extra = args[i + 1]
        del args[i:i + 2]
    if extra:
        muts = collections.OrderedDict((fn[:-5], open(os.path.join(extra, fn)).read()) for fn in sorted(os.listdir(extra)) if fn.endswith(".diff"))
    else:
        muts = mutants_from_md()
    if args:
        muts = collections.OrderedDict((k, v) for k, v in muts.items() if k in args)
    sh("git -C %s checkout -q -- . " % wt)
    print("pristine  ", run_engine(wt, "pristine"), flush=True)
    for mid, diff in muts.items():
        sh("git -C %s checkout -q -- ." % wt)
        p = subprocess.run(["git", "-C", wt, "apply", "--unidiff-zero", "-"], input=diff.encode(), stdout=subprocess.PIPE, stderr=subprocess.STDOUT)
        if p.returncode != 0:
            p = subprocess.run(["patch", "-p1", "-d", wt], input=diff.encode(), stdout=subprocess.PIPE, stderr=subprocess.STDOUT)
        if p.returncode != 0:
            print(mid, "APPLY FAIL", p.stdout.decode()[-200:].replace("\n", " "), flush=True)
            continue
        print("%-10s" % mid, run_engine(wt, mid), flush=True)
    sh("git -C %s checkout -q -- ." % wt)


if __name__ == "__main__":
    main()
