#!/bin/bash
# usage: tools/try_seed.sh <seeded dir or patch> <Cnn> [<Cnn>...]  -- apply the patch to /repo, run the checks, undo it
P=$1; shift
[ -d "$P" ] && P=$P/patch.diff
P=$(realpath $P)
cd "$(dirname "$0")/.."
git -C /repo apply "$P" || { echo "patch does not apply"; exit 2; }
for c in "$@"; do ./check $c 2>&1 | grep -E "VIOLATION|KNOWN|^\[" | head -4; done
git -C /repo checkout -- . ; git -C /repo status --short
