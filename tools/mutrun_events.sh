#!/bin/bash
# run corpus + generated + enumerated cases through the mutated harness and the (fixed) model
cd /root/work/events/verif
(grep -hv "^#" corpus/events/*.txt; .work/bin/harness-mut events gen 20000; .work/bin/harness-mut events enum all) | .work/bin/harness-mut events run > .work/mut.txt
lean/.lake/build/bin/asts-model events < .work/mut.txt > .work/mut.out
paste -d'\t' <(sed 's/.* => //; s/ site=.*//' .work/mut.txt) .work/mut.out | awk -F'\t' '{ if ($1!=$2) d++; if ($3!="ok") { n=split($3,cl,","); for(i=1;i<=n;i++) m[cl[i]]++ } } END { printf "diff=%d", d+0; for (k in m) printf " %s=%d", k, m[k]; print "" }'
